// mutgen enumerates and applies single-site mutations of a Go source file (mutation analysis of the
// checks in /verif: see scripts/mutation_sweep.py).
//
//	mutgen -file conn.go -list            prints "<index>\t<kind>\t<line>\t<function>\t<summary>" per mutation point
//	mutgen -file conn.go -apply 17 -out x writes the mutated file to x
//
// Operators: negate-if (condition of an if statement), boundary (< <-> <=, > <-> >= in conditions),
// delete-stmt (a call, assignment, inc/dec, send, defer or go statement inside a function body).
package main

import (
	"bytes"
	"flag"
	"fmt"
	"go/ast"
	"go/format"
	"go/parser"
	"go/printer"
	"go/token"
	"os"
	"strings"
)

type point struct {
	kind  string
	line  int
	fn    string
	sum   string
	apply func()
}

func main() {
	file := flag.String("file", "", "source file")
	list := flag.Bool("list", false, "list mutation points")
	apply := flag.Int("apply", -1, "apply mutation point i")
	out := flag.String("out", "", "output file")
	flag.Parse()
	fset := token.NewFileSet()
	f, err := parser.ParseFile(fset, *file, nil, parser.ParseComments)
	if err != nil {
		fmt.Fprintln(os.Stderr, err)
		os.Exit(2)
	}
	var pts []point
	src := func(n ast.Node) string {
		var b bytes.Buffer
		printer.Fprint(&b, fset, n)
		s := strings.Join(strings.Fields(b.String()), " ")
		if len(s) > 90 {
			s = s[:90] + "..."
		}
		return s
	}
	for _, d := range f.Decls {
		fd, ok := d.(*ast.FuncDecl)
		if !ok || fd.Body == nil {
			continue
		}
		name := fd.Name.Name
		if fd.Recv != nil && len(fd.Recv.List) > 0 {
			name = src(fd.Recv.List[0].Type) + "." + name
		}
		var walkList func(list *[]ast.Stmt)
		visitCond := func(e ast.Expr) {
			ast.Inspect(e, func(n ast.Node) bool {
				if _, ok := n.(*ast.FuncLit); ok {
					return false
				}
				if b, ok := n.(*ast.BinaryExpr); ok {
					var to token.Token
					switch b.Op {
					case token.LSS:
						to = token.LEQ
					case token.LEQ:
						to = token.LSS
					case token.GTR:
						to = token.GEQ
					case token.GEQ:
						to = token.GTR
					}
					if to != token.ILLEGAL {
						b := b
						pts = append(pts, point{"boundary", fset.Position(b.Pos()).Line, name, src(b) + "  ->  " + to.String(), func() { b.Op = to }})
					}
				}
				return true
			})
		}
		var visit func(n ast.Node) bool
		visit = func(n ast.Node) bool {
			switch x := n.(type) {
			case *ast.BlockStmt:
				walkList(&x.List)
				return false
			case *ast.CaseClause:
				walkList(&x.Body)
				return false
			case *ast.CommClause:
				walkList(&x.Body)
				return false
			case *ast.IfStmt:
				x2 := x
				pts = append(pts, point{"negate-if", fset.Position(x.Pos()).Line, name, "if " + src(x.Cond), func() {
					if u, ok := x2.Cond.(*ast.UnaryExpr); ok && u.Op == token.NOT {
						x2.Cond = u.X
					} else {
						x2.Cond = &ast.UnaryExpr{Op: token.NOT, X: &ast.ParenExpr{X: x2.Cond}}
					}
				}})
				visitCond(x.Cond)
			case *ast.ForStmt:
				if x.Cond != nil {
					visitCond(x.Cond)
				}
			}
			return true
		}
		walkList = func(list *[]ast.Stmt) {
			for i := range *list {
				s := (*list)[i]
				deletable := false
				switch x := s.(type) {
				case *ast.ExprStmt:
					if c, ok := x.X.(*ast.CallExpr); ok {
						if id, ok := c.Fun.(*ast.Ident); !ok || id.Name != "panic" {
							deletable = true
						}
					}
				case *ast.AssignStmt:
					deletable = x.Tok != token.DEFINE
				case *ast.IncDecStmt, *ast.SendStmt, *ast.DeferStmt, *ast.GoStmt:
					deletable = true
				}
				if deletable {
					i := i
					pts = append(pts, point{"delete-stmt", fset.Position(s.Pos()).Line, name, src(s), func() { (*list)[i] = &ast.EmptyStmt{Implicit: false, Semicolon: s.Pos()} }})
				}
				ast.Inspect(s, visit)
			}
		}
		walkList(&fd.Body.List)
	}
	if *list {
		for i, p := range pts {
			fmt.Printf("%d\t%s\t%d\t%s\t%s\n", i, p.kind, p.line, p.fn, p.sum)
		}
		return
	}
	if *apply == -2 && *out != "" {
		// the unmutated file through the same printer (diff base)
		var b bytes.Buffer
		format.Node(&b, fset, f)
		os.WriteFile(*out, b.Bytes(), 0o644)
		return
	}
	if *apply < 0 || *apply >= len(pts) || *out == "" {
		fmt.Fprintln(os.Stderr, "mutgen: need -list, or -apply i (0 <= i <", len(pts), ") and -out")
		os.Exit(2)
	}
	pts[*apply].apply()
	var b bytes.Buffer
	if err := format.Node(&b, fset, f); err != nil {
		fmt.Fprintln(os.Stderr, err)
		os.Exit(2)
	}
	if err := os.WriteFile(*out, b.Bytes(), 0o644); err != nil {
		fmt.Fprintln(os.Stderr, err)
		os.Exit(2)
	}
}
