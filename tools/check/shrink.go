package main

import (
	"encoding/json"
	"fmt"
	"os"
	"path/filepath"
	"regexp"
	"sync"
	"time"
)

var sanitize = regexp.MustCompile(`[^A-Za-z0-9_.-]+`)

// reproduces runs candidate replays in parallel and returns, per candidate,
// the result if it shows the signature.
func reproduces(cands []*Replay, sig string) []*Result {
	out := make([]*Result, len(cands))
	var wg sync.WaitGroup
	sem := make(chan struct{}, workers)
	for i := range cands {
		wg.Add(1)
		sem <- struct{}{}
		go func(i int) {
			defer wg.Done()
			defer func() { <-sem }()
			r, err := tryReplay(cands[i])
			if err == nil && hasSig(r, sig) {
				out[i] = r
			}
		}(i)
	}
	wg.Wait()
	return out
}

func clonePlan(p map[string]any) map[string]any {
	b, _ := json.Marshal(p)
	var q map[string]any
	json.Unmarshal(b, &q)
	return q
}

func planOf(raw json.RawMessage) map[string]any {
	var p map[string]any
	json.Unmarshal(raw, &p)
	return p
}

func rawOf(p map[string]any) json.RawMessage {
	b, _ := json.Marshal(p)
	return b
}

func countOps(p map[string]any) int {
	n := 0
	if cl, ok := p["clients"].([]any); ok {
		for _, c := range cl {
			if ops, ok := c.(map[string]any)["ops"].([]any); ok {
				n += len(ops)
			}
		}
	}
	return n
}

// planCandidates returns structurally smaller variants of p.
func planCandidates(p map[string]any) []map[string]any {
	var out []map[string]any
	clients, _ := p["clients"].([]any)
	// drop a whole client
	if len(clients) > 1 {
		for i := range clients {
			q := clonePlan(p)
			cl := q["clients"].([]any)
			q["clients"] = append(append([]any{}, cl[:i]...), cl[i+1:]...)
			out = append(out, q)
		}
	}
	// drop halves / single ops of each client
	for i, c := range clients {
		ops, _ := c.(map[string]any)["ops"].([]any)
		n := len(ops)
		if n == 0 {
			continue
		}
		var cuts [][2]int
		if n >= 4 {
			cuts = append(cuts, [2]int{0, n / 2}, [2]int{n / 2, n})
		}
		if n >= 8 {
			q := n / 4
			cuts = append(cuts, [2]int{0, q}, [2]int{q, 2 * q}, [2]int{2 * q, 3 * q}, [2]int{3 * q, n})
		}
		if n <= 12 {
			for k := 0; k < n; k++ {
				cuts = append(cuts, [2]int{k, k + 1})
			}
		}
		for _, cut := range cuts {
			q := clonePlan(p)
			qc := q["clients"].([]any)[i].(map[string]any)
			qo := qc["ops"].([]any)
			qc["ops"] = append(append([]any{}, qo[:cut[0]]...), qo[cut[1]:]...)
			out = append(out, q)
		}
	}
	// shrink payload sizes
	for i, c := range clients {
		ops, _ := c.(map[string]any)["ops"].([]any)
		for k, o := range ops {
			om := o.(map[string]any)
			for _, key := range []string{"sz", "rep"} {
				if v, ok := om[key].(float64); ok && v > 16 {
					q := clonePlan(p)
					q["clients"].([]any)[i].(map[string]any)["ops"].([]any)[k].(map[string]any)[key] = 8
					out = append(out, q)
				}
			}
		}
	}
	// drop scheduled faults one at a time
	if fs, ok := p["faults"].([]any); ok && len(fs) > 1 {
		for i := range fs {
			q := clonePlan(p)
			qf := q["faults"].([]any)
			q["faults"] = append(append([]any{}, qf[:i]...), qf[i+1:]...)
			out = append(out, q)
		}
	}
	// plain network
	if net, ok := p["net"].(map[string]any); ok {
		if v, _ := net["FragPermille"].(float64); v > 0 {
			q := clonePlan(p)
			q["net"].(map[string]any)["FragPermille"] = 0
			out = append(out, q)
		}
		if v, _ := net["MaxLatency"].(float64); v > 0 {
			q := clonePlan(p)
			q["net"].(map[string]any)["MaxLatency"] = 0
			out = append(out, q)
		}
	}
	if sim, ok := p["sim"].(map[string]any); ok {
		if v, _ := sim["poolmiss"].(float64); v > 0 {
			q := clonePlan(p)
			q["sim"].(map[string]any)["poolmiss"] = 0
			out = append(out, q)
		}
		if v, _ := sim["entry"].(float64); v > 0 {
			q := clonePlan(p)
			delete(q["sim"].(map[string]any), "entry")
			out = append(out, q)
		}
	}
	return out
}

// minimiseAndVerify shrinks the failing run, writes the replay files and
// confirms that the minimised file reproduces the signature (twice, with equal
// trace hashes) in fresh processes.
func minimiseAndVerify(prop, tier, sig string, r Result, shrink bool) (path string, ok bool, note string) {
	deadline := time.Now().Add(45 * time.Second)
	if tier == "thorough" {
		deadline = time.Now().Add(4 * time.Minute)
	}
	if !shrink {
		deadline = time.Now() // only the first classes of a check are minimised; the others are replayed and reported unshrunk
	}
	base := &Replay{Property: prop, Scenario: r.scenario, Seed: r.Seed, Index: r.Index, Tier: tier, Signature: sig, Plan: r.Plan, Choices: r.Choices}
	for _, v := range r.Violations {
		if v.Sig == sig {
			vv := v
			base.Violation = &vv
		}
	}
	first := reproduces([]*Replay{base}, sig)[0]
	if first == nil {
		return "", false, "the recorded plan and choices did not reproduce the violation in a fresh process"
	}
	dir := filepath.Join(verifDir, "replays", prop)
	os.MkdirAll(dir, 0o755)
	name := sanitize.ReplaceAllString(sig, "_")
	if len(name) > 80 {
		name = name[:80]
	}
	origPath := filepath.Join(dir, fmt.Sprintf("%s-%d.orig.json", name, r.Seed))
	base.Hash = first.Hash
	writeReplay(origPath, base)

	// phase 1: plan reduction, schedule re-derived from the run seed
	plan := planOf(r.Plan)
	curOps := countOps(plan)
	seedMode := reproduces([]*Replay{{Property: prop, Scenario: r.scenario, Seed: r.Seed, Index: r.Index, Tier: tier, Signature: sig, Plan: rawOf(plan)}}, sig)[0] != nil
	if seedMode {
		for round := 0; round < 12 && time.Now().Before(deadline); round++ {
			cands := planCandidates(plan)
			if len(cands) == 0 {
				break
			}
			if len(cands) > 64 {
				cands = cands[:64]
			}
			var rps []*Replay
			for _, c := range cands {
				rps = append(rps, &Replay{Property: prop, Scenario: r.scenario, Seed: r.Seed, Index: r.Index, Tier: tier, Signature: sig, Plan: rawOf(c)})
			}
			res := reproduces(rps, sig)
			best := -1
			for i, x := range res {
				if x == nil {
					continue
				}
				if best < 0 || countOps(cands[i]) < countOps(cands[best]) {
					best = i
				}
			}
			if best < 0 {
				break
			}
			plan = cands[best]
			if n := countOps(plan); n < curOps {
				curOps = n
			}
		}
	}
	// record the choices of the reduced plan
	cur := &Replay{Property: prop, Scenario: r.scenario, Seed: r.Seed, Index: r.Index, Tier: tier, Signature: sig, Plan: rawOf(plan), Violation: base.Violation}
	rec := reproduces([]*Replay{cur}, sig)[0]
	if rec == nil || !seedMode {
		// fall back to the original recording
		cur.Plan = r.Plan
		cur.Choices = r.Choices
	} else {
		cur.Choices = rec.Choices
	}
	// phase 2: choice reduction (shorter prefix, then zeroed blocks: 0 = "continue the current goroutine / first alternative / no fault")
	choices := append([]uint32(nil), cur.Choices...)
	for time.Now().Before(deadline) && len(choices) > 0 {
		var rps []*Replay
		var lens []int
		for _, frac := range []int{0, 1, 2, 3, 4, 5, 6, 7} {
			n := len(choices) * frac / 8
			c := *cur
			c.Choices = append([]uint32{}, choices[:n]...)
			if n == 0 {
				c.Choices = []uint32{}
			}
			rps = append(rps, &c)
			lens = append(lens, n)
		}
		res := reproduces(rps, sig)
		improved := false
		for i, x := range res {
			if x != nil {
				choices = choices[:lens[i]]
				improved = true
				break
			}
		}
		if !improved || len(choices) == 0 {
			break
		}
	}
	for block := len(choices) / 2; block >= 1 && time.Now().Before(deadline); block /= 2 {
		var rps []*Replay
		var starts []int
		for s := 0; s < len(choices); s += block {
			allZero := true
			for k := s; k < s+block && k < len(choices); k++ {
				if choices[k] != 0 {
					allZero = false
				}
			}
			if allZero {
				continue
			}
			c := *cur
			cc := append([]uint32{}, choices...)
			for k := s; k < s+block && k < len(cc); k++ {
				cc[k] = 0
			}
			c.Choices = cc
			rps = append(rps, &c)
			starts = append(starts, s)
			if len(rps) >= 48 {
				break
			}
		}
		if len(rps) == 0 {
			continue
		}
		res := reproduces(rps, sig)
		for i, x := range res {
			if x != nil {
				for k := starts[i]; k < starts[i]+block && k < len(choices); k++ {
					choices[k] = 0
				}
			}
		}
		// zeroing several blocks at once may not compose: confirm
		c := *cur
		c.Choices = choices
		if reproduces([]*Replay{&c}, sig)[0] == nil {
			choices = append([]uint32(nil), cur.Choices...)
			if len(choices) > len(c.Choices) {
				choices = choices[:len(c.Choices)]
			}
			break
		}
		if block == 1 {
			break
		}
	}
	cur.Choices = choices
	cur.Minimised = true
	// final verification: twice, fresh processes, identical hash
	v := reproduces([]*Replay{cur, cur}, sig)
	if v[0] == nil || v[1] == nil {
		// minimisation went wrong somewhere: fall back to the unshrunk file, which did reproduce
		v2 := reproduces([]*Replay{base, base}, sig)
		if v2[0] == nil || v2[1] == nil || v2[0].Hash != v2[1].Hash {
			return "", false, "replay is not stable"
		}
		base.Note = "minimisation failed to preserve the violation; this is the unshrunk recording"
		path = filepath.Join(dir, fmt.Sprintf("%s-%d.json", name, r.Seed))
		writeReplay(path, base)
		return path, true, ""
	}
	if v[0].Hash != v[1].Hash {
		return "", false, "two replays of the minimised file produced different traces"
	}
	cur.Hash = v[0].Hash
	cur.Note = fmt.Sprintf("minimised from %d ops / %d choices to %d ops / %d choices (unshrunk: %s)", countOps(planOf(r.Plan)), len(r.Choices), countOps(planOf(cur.Plan)), len(cur.Choices), filepath.Base(origPath))
	path = filepath.Join(dir, fmt.Sprintf("%s-%d.json", name, r.Seed))
	writeReplay(path, cur)
	return path, true, ""
}

var numArray = regexp.MustCompile(`\[\s*((?:\d+,\s*)*\d+)\s*\]`)
var ws = regexp.MustCompile(`\s+`)

func writeReplay(path string, rp *Replay) {
	b, _ := json.MarshalIndent(rp, "", " ")
	b = numArray.ReplaceAllFunc(b, func(m []byte) []byte { return ws.ReplaceAll(m, nil) })
	os.WriteFile(path, b, 0o644)
}
