package main

var commonAssume = []string{
	"sampled, not exhaustive: schedules, workloads and fault sequences are drawn from a seeded PRNG",
	"the network is simnet (byte streams with fragmentation, delay, FIN/RST cuts, refused dials, listener kill/restart); real kernel sockets and TLS are outside the simulator",
	"sync, sync/atomic and math/rand are replaced by cooperative shims in a scratch copy of /repo and of the hslam modules it builds against (source-to-source, tools/simgo)",
	"time is the testing/synctest fake clock; every run is one synctest bubble under a token-passing scheduler",
}

const ruleCommon = "one evaluation = one simulated execution (plan generated from splitmix(VERIF_SEED, index), schedule/fault draws from the run's choice stream); distinct = distinct hash of the scheduling trace (sequence of (logical goroutine, kind of scheduling point)); non-trivial = at least 3 context switches between library goroutines or at least one fault fired"

var props = map[string]propSpec{
	"C01": {ID: "C01", Level: "exploration", Rule: ruleCommon, Assume: commonAssume,
		Scenarios: []scenarioBudget{{Name: "c01", QuickSec: 40, ThoroughSec: 900}}},
}
