package main

var commonAssume = []string{
	"sampled, not exhaustive: schedules, workloads and fault sequences are drawn from a seeded PRNG",
	"the network is simnet (byte streams with fragmentation, delay, FIN/RST cuts, refused dials, listener kill/restart); real kernel sockets and TLS are outside the simulator",
	"sync, sync/atomic and math/rand are replaced by cooperative shims in a scratch copy of /repo and of the hslam modules it builds against (source-to-source, tools/simgo)",
	"time is the testing/synctest fake clock; every run is one synctest bubble under a token-passing scheduler",
}

const ruleCommon = "one evaluation = one simulated execution (plan generated from splitmix(VERIF_SEED, index), schedule/fault draws from the run's choice stream); distinct = distinct hash of the scheduling trace (sequence of (logical goroutine, kind of scheduling point)); non-trivial = at least 3 context switches between library goroutines or at least one fault fired"

var props = map[string]propSpec{
	"C01": {ID: "C01", Level: "exploration", Rule: ruleCommon, Assume: commonAssume,
		Scenarios: []scenarioBudget{{Name: "c01", QuickSec: 40, ThoroughSec: 900}}},
	"C02": {ID: "C02", Level: "exploration", Rule: ruleCommon, Assume: commonAssume,
		Scenarios: []scenarioBudget{{Name: "c02", QuickSec: 40, ThoroughSec: 900}}},
	"C03": {ID: "C03", Level: "fault_enumeration", Rule: ruleCommon + "; fault points are enumerated: run index -> (conversation 0..7, cut kind FIN/RST x direction, byte offset | Close at op k | server kill/close at op k), thorough walks every byte offset of each conversation", Assume: commonAssume,
		Scenarios: []scenarioBudget{{Name: "c03", QuickSec: 40, ThoroughSec: 1200}}},
	"C04": {ID: "C04", Level: "exploration", Rule: ruleCommon, Assume: commonAssume,
		Scenarios: []scenarioBudget{{Name: "c04", QuickSec: 40, ThoroughSec: 900}}},
	"C05": {ID: "C05", Level: "exploration", Rule: ruleCommon, Assume: commonAssume,
		Scenarios: []scenarioBudget{{Name: "c05", QuickSec: 40, ThoroughSec: 900}}},
	"C09": {ID: "C09", Level: "exploration", Rule: ruleCommon, Assume: commonAssume,
		Scenarios: []scenarioBudget{{Name: "c09", QuickSec: 40, ThoroughSec: 900}}},
	"C10": {ID: "C10", Level: "exploration", Rule: ruleCommon + "; accept mode (non-poll, poll fallback, poll epoll-model) and fault kind (stream close, FIN, RST, Conn.Close, server kill) are enumerated by run index", Assume: commonAssume,
		Scenarios: []scenarioBudget{{Name: "c10", QuickSec: 40, ThoroughSec: 900}}},
	"C11": {ID: "C11", Level: "exploration", Rule: ruleCommon, Assume: commonAssume,
		Scenarios: []scenarioBudget{{Name: "c11", QuickSec: 40, ThoroughSec: 900}}},
	"C19": {ID: "C19", Level: "exploration", Rule: ruleCommon, Assume: commonAssume,
		Scenarios: []scenarioBudget{{Name: "c19", QuickSec: 40, ThoroughSec: 900}}},
	"C13": {ID: "C13", Level: "exploration", Rule: ruleCommon, Assume: commonAssume,
		Scenarios: []scenarioBudget{{Name: "c13", QuickSec: 40, ThoroughSec: 900}}},
	"C14": {ID: "C14", Level: "exploration", Rule: ruleCommon, Assume: commonAssume,
		Scenarios: []scenarioBudget{{Name: "c14", QuickSec: 40, ThoroughSec: 900}}},
	"C15": {ID: "C15", Level: "exploration", Rule: ruleCommon, Assume: commonAssume,
		Scenarios: []scenarioBudget{{Name: "c15", QuickSec: 40, ThoroughSec: 900}}},
	"C16": {ID: "C16", Level: "exploration", Rule: ruleCommon + "; each run's history of Update/Route operations (event-sequence-stamped) is checked with porcupine against a current-target-set model", Assume: append(append([]string{}, commonAssume...), "the Transport under the Client is a scripted fake RoundTripper (addresses, health and latency scripted per target); the Client code itself is real"),
		Scenarios: []scenarioBudget{{Name: "c16", QuickSec: 40, ThoroughSec: 900}}},
	"C17": {ID: "C17", Level: "exploration", Rule: ruleCommon, Assume: append(append([]string{}, commonAssume...), "the Transport under the Client is a scripted fake RoundTripper; latencies are exact on the fake clock"),
		Scenarios: []scenarioBudget{{Name: "c17", QuickSec: 40, ThoroughSec: 900}}},
	"C18": {ID: "C18", Level: "exploration", Rule: ruleCommon, Assume: append(append([]string{}, commonAssume...), "the Transport under the Client is a scripted fake RoundTripper; detection bound used by the oracle: 1 simulated second (10x the detector period)"),
		Scenarios: []scenarioBudget{{Name: "c18", QuickSec: 40, ThoroughSec: 900}}},
	"C08": {ID: "C08", Level: "fault_enumeration", Rule: ruleCommon + "; run index mod 4: 0 = burst of 1..64 well-formed requests followed at once by a disconnect, 1 = adversarial server (truncated / corrupted / duplicated / unsolicited / random responses), 2,3 = enumerated mutations of every corpus frame kind (call, ping, stream open/message/close) under each header encoder: every truncation, every single-byte corruption (8 values quick, all 255 thorough) and every upgrade byte 0..255, six per run, each followed by a well-formed probe", Assume: commonAssume,
		Scenarios: []scenarioBudget{{Name: "c08", QuickSec: 45, ThoroughSec: 1500}}},
	"C20": {ID: "C20", Level: "exploration", Rule: ruleCommon, Assume: append(append([]string{}, commonAssume...), "goroutine leaks are judged on the simulator's registry of goroutines started by instrumented library code (exact), sockets on simnet's connection table"),
		Scenarios: []scenarioBudget{{Name: "c20", QuickSec: 40, ThoroughSec: 900}}},
	"C06": {ID: "C06", Level: "exploration", Rule: ruleCommon, Assume: commonAssume,
		Scenarios: []scenarioBudget{{Name: "c06", QuickSec: 40, ThoroughSec: 900}}},
}
