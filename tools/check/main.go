// check is the orchestrator: it instruments a scratch copy of /repo, builds the
// simulation harness against it, runs seeded batches of simulated executions
// on all cores, minimises and replays violations, and writes the evidence file.
//
//	check <Cxx> quick|thorough
//	check replay <file>
//
// exit 0: the property held on everything explored (known findings are printed
// as KNOWN-FINDING lines); exit 1: VIOLATION line(s); exit 2: build or
// infrastructure trouble (never a violation).
package main

import (
	"regexp"
	"bufio"
	"encoding/json"
	"fmt"
	"os"
	"os/exec"
	"path/filepath"
	"runtime"
	"sort"
	"strconv"
	"strings"
	"sync"
	"time"
)

// verifDir is the root of the verification tree: the working directory when it
// looks like one (so that snapshots of /verif can be run in place), else /verif.
var verifDir = func() string {
	if wd, err := os.Getwd(); err == nil {
		if _, err := os.Stat(filepath.Join(wd, "harness", "worker_test.go")); err == nil {
			return wd
		}
	}
	return "/verif"
}()

type scenarioBudget struct {
	Name        string
	QuickSec    int // wall seconds of search in the quick tier
	ThoroughSec int
	Weight      int
}

type propSpec struct {
	ID        string
	Level     string
	Scenarios []scenarioBudget
	Rule      string
	Assume    []string
}

func die(code int, format string, a ...any) {
	fmt.Fprintf(os.Stderr, "check: "+format+"\n", a...)
	os.Exit(code)
}

type Violation struct {
	Oracle string `json:"oracle"`
	Sig    string `json:"sig"`
	Detail string `json:"detail"`
}

type PanicInfo struct {
	G, Site, Value, Stack string
}

type Result struct {
	Index       uint64            `json:"index"`
	Seed        uint64            `json:"seed"`
	Hash        string            `json:"hash"`
	Steps       int               `json:"steps"`
	Switches    int               `json:"switches"`
	Draws       int               `json:"draws"`
	SimUS       int64             `json:"sim_us"`
	WallUS      int64             `json:"wall_us"`
	Budget      bool              `json:"budget,omitempty"`
	Hung        bool              `json:"hung,omitempty"`
	HungReport  string            `json:"hung_report,omitempty"`
	Dirty       int               `json:"dirty,omitempty"`
	Panics      []PanicInfo       `json:"panics,omitempty"`
	Violations  []Violation       `json:"violations,omitempty"`
	Probes      map[string]int    `json:"probes,omitempty"`
	Faults      map[string]int    `json:"faults,omitempty"`
	Infra       string            `json:"infra,omitempty"`
	Goroutines  int               `json:"goroutines"`
	Calls       int               `json:"calls"`
	Notes       []string          `json:"notes,omitempty"`
	Plan        json.RawMessage   `json:"plan,omitempty"`
	Choices     []uint32          `json:"choices,omitempty"`
	Mismatch    bool              `json:"hash_mismatch,omitempty"`
	Interleaved bool              `json:"interleaved,omitempty"`
	Points      []string          `json:"points,omitempty"`
	Spawns      map[string]int    `json:"spawns,omitempty"`
	scenario    string
}

type Spec struct {
	Scenario     string `json:"scenario"`
	Tier         string `json:"tier"`
	Base         uint64 `json:"base"`
	Start        uint64 `json:"start"`
	Count        uint64 `json:"count"`
	Out          string `json:"out"`
	Replay       string `json:"replay,omitempty"`
	Recheck      int    `json:"recheck,omitempty"`
	KeepChoices  bool   `json:"keep_choices,omitempty"`
	DeadlineUnix int64  `json:"deadline,omitempty"`
}

type Replay struct {
	Property  string          `json:"property"`
	Scenario  string          `json:"scenario"`
	Seed      uint64          `json:"seed"`
	Index     uint64          `json:"index"`
	Tier      string          `json:"tier"`
	Signature string          `json:"signature"`
	Violation *Violation      `json:"violation,omitempty"`
	Plan      json.RawMessage `json:"plan"`
	Choices   []uint32        `json:"choices"`
	Hash      string          `json:"trace_hash"`
	Minimised bool            `json:"minimised"`
	Note      string          `json:"note,omitempty"`
}

type knownFile struct {
	Known []struct {
		Property  string `json:"property"`
		Signature string `json:"signature"`
		What      string `json:"what"`
	} `json:"known"`
	Fixed []struct {
		Property string `json:"property"`
		Commit   string `json:"commit"`
		What     string `json:"what"`
	} `json:"fixed"`
}

var (
	scratch string
	binary  string
	workers = runtime.NumCPU()
)

func env() []string {
	e := os.Environ()
	e = append(e, "GOFLAGS=-mod=mod", "GOPROXY=off", "GOSUMDB=off", "GOTOOLCHAIN=local", "CGO_ENABLED=0",
		"PATH=/opt/veriftools/go1.26.8/bin:"+os.Getenv("PATH"))
	return e
}

// build instruments /repo into the scratch directory and builds the harness.
func build() {
	var err error
	scratch, err = os.MkdirTemp("", "verif-sim-")
	if err != nil {
		die(2, "mktemp: %v", err)
	}
	if _, err := os.Stat(filepath.Join(verifDir, "bin", "simgo")); err != nil {
		// build tools on demand (setup_cmd normally did this)
		c := exec.Command("bash", filepath.Join(verifDir, "scripts", "setup.sh"))
		c.Env = env()
		if out, err := c.CombinedOutput(); err != nil {
			cleanup()
			die(2, "setup failed: %v\n%s", err, out)
		}
	}
	c := exec.Command("bash", filepath.Join(verifDir, "scripts", "instrument.sh"), scratch)
	c.Env = append(env(), "VERIF_DIR="+verifDir)
	if out, err := c.CombinedOutput(); err != nil {
		cleanup()
		die(2, "instrumentation of /repo failed (build trouble, not a violation): %v\n%s", err, out)
	}
	// modfile for the harness
	mod, err := os.ReadFile(filepath.Join(verifDir, "harness", "go.mod"))
	if err != nil {
		cleanup()
		die(2, "%v", err)
	}
	ms := strings.ReplaceAll(string(mod), "/verif/scratch/dev", scratch)
	ms = strings.ReplaceAll(ms, "=> /verif/sim", "=> "+filepath.Join(verifDir, "sim"))
	modfile := filepath.Join(scratch, "harness.mod")
	os.WriteFile(modfile, []byte(ms), 0o644)
	sum, _ := os.ReadFile(filepath.Join(verifDir, "harness", "go.sum"))
	os.WriteFile(filepath.Join(scratch, "harness.sum"), sum, 0o644)
	binary = filepath.Join(scratch, "harness.test")
	c = exec.Command("/opt/veriftools/go1.26.8/bin/go", "test", "-c", "-trimpath", "-modfile="+modfile, "-o", binary, ".")
	c.Dir = filepath.Join(verifDir, "harness")
	c.Env = env()
	if out, err := c.CombinedOutput(); err != nil {
		cleanup()
		die(2, "harness build against the instrumented tree failed (build trouble, not a violation): %v\n%s", err, out)
	}
}

var digitRuns = regexp.MustCompile(`[0-9]+`)

func cleanup() {
	if scratch != "" {
		os.RemoveAll(scratch)
	}
}

// runWorker runs one worker process over [start,start+count) and returns its results.
func runWorker(spec Spec, timeout time.Duration) (res []Result, exit int, stderr string) {
	return runWorkerProcs(spec, timeout, 2)
}

func runWorkerProcs(spec Spec, timeout time.Duration, procs int) (res []Result, exit int, stderr string) {
	f, _ := os.CreateTemp(scratch, "spec-*.json")
	spec.Out = f.Name() + ".out"
	b, _ := json.Marshal(spec)
	f.Write(b)
	f.Close()
	defer os.Remove(f.Name())
	defer os.Remove(spec.Out)
	c := exec.Command(binary, "-test.run", "^TestWorker$", "-test.timeout", "0")
	c.Env = append(env(), "VERIF_SPEC="+f.Name(), fmt.Sprintf("GOMAXPROCS=%d", procs))
	var eb strings.Builder
	c.Stderr = &eb
	c.Stdout = &eb
	done := make(chan error, 1)
	if err := c.Start(); err != nil {
		return nil, 2, err.Error()
	}
	go func() { done <- c.Wait() }()
	select {
	case err := <-done:
		if err != nil {
			if ee, ok := err.(*exec.ExitError); ok {
				exit = ee.ExitCode()
			} else {
				exit = 2
			}
		}
	case <-time.After(timeout):
		c.Process.Kill()
		<-done
		exit = 124
	}
	stderr = eb.String()
	of, err := os.Open(spec.Out)
	if err == nil {
		sc := bufio.NewScanner(of)
		sc.Buffer(make([]byte, 1<<20), 1<<28)
		for sc.Scan() {
			var r Result
			if json.Unmarshal(sc.Bytes(), &r) == nil {
				r.scenario = spec.Scenario
				res = append(res, r)
			}
		}
		of.Close()
	}
	return
}

type agg struct {
	mu          sync.Mutex
	evals       int
	steps       int64
	simUS       int64
	wallUS      int64
	hashes      map[string]bool
	faults      map[string]int
	probes      map[string]int
	budget      int
	hung        int
	dirty       int
	panicRuns   int
	mismatch    int
	rechecked   int
	calls       int64
	goroutines  int64
	viol        []Result
	infra       []string
	samples     []json.RawMessage
	perScenario map[string]int
	panicClasses map[string]int
	points      map[string]bool
	spawns      map[string]int
	hungSample  string
}

func (a *agg) add(r Result) {
	a.mu.Lock()
	defer a.mu.Unlock()
	a.evals++
	a.perScenario[r.scenario]++
	a.steps += int64(r.Steps)
	a.simUS += r.SimUS
	a.wallUS += r.WallUS
	a.calls += int64(r.Calls)
	a.goroutines += int64(r.Goroutines)
	nontrivial := r.Interleaved
	for k, v := range r.Faults {
		a.faults[k] += v
		if v > 0 {
			nontrivial = true
		}
	}
	for k, v := range r.Probes {
		a.probes[k] += v
	}
	if nontrivial && r.Hash != "" {
		a.hashes[r.scenario+":"+r.Hash] = true
	}
	for k, v := range r.Spawns {
		a.spawns[k] += v
	}
	for _, p := range r.Points {
		a.points[r.scenario+":"+p] = true
	}
	if r.Budget {
		a.budget++
	}
	if r.Hung {
		a.hung++
	}
	if r.Dirty > 0 {
		a.dirty++
	}
	if len(r.Panics) > 0 {
		a.panicRuns++
		for _, p := range r.Panics {
			v := p.Value
			if len(v) > 120 {
				v = v[:120]
			}
			v = digitRuns.ReplaceAllString(v, "N") // "index out of range [N] with length N": one class
			a.panicClasses[v+" @ "+p.Site]++
		}
	}
	if r.Hung && a.hungSample == "" {
		a.hungSample = fmt.Sprintf("scenario %s index %d seed %d", r.scenario, r.Index, r.Seed)
	}
	if r.Mismatch {
		a.mismatch++
	}
	if r.Infra != "" {
		a.infra = append(a.infra, fmt.Sprintf("run %d (seed %d): %s", r.Index, r.Seed, r.Infra))
	}
	if len(r.Violations) > 0 {
		a.viol = append(a.viol, r)
	}
}

func loadKnown() knownFile {
	var k knownFile
	b, err := os.ReadFile(filepath.Join(verifDir, "known_findings.json"))
	if err == nil {
		json.Unmarshal(b, &k)
	}
	return k
}

func (k *knownFile) match(prop, sig string) (string, bool) {
	for _, e := range k.Known {
		if e.Property == prop && (e.Signature == sig || (strings.HasSuffix(e.Signature, "*") && strings.HasPrefix(sig, strings.TrimSuffix(e.Signature, "*")))) {
			return e.What, true
		}
	}
	return "", false
}

func baseSeed() uint64 {
	if s := os.Getenv("VERIF_SEED"); s != "" {
		if v, err := strconv.ParseUint(s, 10, 64); err == nil {
			return v
		}
		if v, err := strconv.ParseInt(s, 10, 64); err == nil {
			return uint64(v)
		}
	}
	return 20261003
}

func main() {
	if len(os.Args) < 3 {
		die(2, "usage: check <Cxx> quick|thorough | check replay <file>")
	}
	if os.Args[1] == "replay" {
		os.Exit(replayMain(os.Args[2]))
	}
	if os.Args[1] == "smoke" {
		os.Exit(smokeMain(os.Args[2]))
	}
	prop, tier := os.Args[1], os.Args[2]
	if t := os.Getenv("VERIF_TIER"); t != "" && len(os.Args) < 4 {
		_ = t
	}
	ps, ok := props[prop]
	if !ok {
		die(2, "unknown property %s", prop)
	}
	if tier != "quick" && tier != "thorough" {
		die(2, "tier must be quick or thorough")
	}
	start := time.Now()
	seed := baseSeed()
	fmt.Printf("check %s %s VERIF_SEED=%d workers=%d\n", prop, tier, seed, workers)
	build()
	defer cleanup()
	fmt.Printf("built harness against instrumented /repo in %.1fs\n", time.Since(start).Seconds())

	a := &agg{hashes: map[string]bool{}, faults: map[string]int{}, probes: map[string]int{}, perScenario: map[string]int{}, panicClasses: map[string]int{}, points: map[string]bool{}, spawns: map[string]int{}}
	searchStart := time.Now()
	for _, sb := range ps.Scenarios {
		secs := sb.QuickSec
		if tier == "thorough" {
			secs = sb.ThoroughSec
		}
		if v := os.Getenv("VERIF_BUDGET_SEC"); v != "" {
			if n, err := strconv.Atoi(v); err == nil {
				secs = n
			}
		}
		runScenario(a, sb.Name, tier, seed, time.Duration(secs)*time.Second)
	}
	searchWall := time.Since(searchStart).Seconds()

	// triage violations by signature
	known := loadKnown()
	bySig := map[string][]Result{}
	var sigs []string
	for _, r := range a.viol {
		seen := map[string]bool{}
		for _, v := range r.Violations {
			if seen[v.Sig] {
				continue
			}
			seen[v.Sig] = true
			if _, ok := bySig[v.Sig]; !ok {
				sigs = append(sigs, v.Sig)
			}
			bySig[v.Sig] = append(bySig[v.Sig], r)
		}
	}
	sort.Strings(sigs)
	exit := 0
	var reported []map[string]any
	knownSeen := map[string]int{}
	minimised := 0
	for _, sig := range sigs {
		rs := bySig[sig]
		if what, ok := known.match(prop, sig); ok {
			knownSeen[sig] = len(rs)
			fmt.Printf("KNOWN-FINDING: property=%s %s [signature %s, %d runs]\n", prop, what, sig, len(rs))
			continue
		}
		// unlisted: minimise, replay in a fresh process, report
		r := rs[0]
		for _, c := range rs {
			if c.Steps < r.Steps {
				r = c
			}
		}
		minimised++
		path, ok, note := minimiseAndVerify(prop, tier, sig, r, minimised <= 3)
		if !ok {
			fmt.Fprintf(os.Stderr, "check: replay divergence for signature %s (seed %d index %d): %s\n", sig, r.Seed, r.Index, note)
			if exit == 0 {
				exit = 2
			}
			continue
		}
		var detail string
		for _, v := range r.Violations {
			if v.Sig == sig {
				detail = v.Detail
				break
			}
		}
		fmt.Printf("VIOLATION property=%s replay=%s\n", prop, path)
		fmt.Printf("  signature=%s runs=%d first: seed=%d index=%d scenario=%s\n  %s\n", sig, len(rs), r.Seed, r.Index, r.scenario, detail)
		reported = append(reported, map[string]any{"signature": sig, "runs": len(rs), "replay": path, "detail": detail})
		exit = 1
	}
	if len(a.infra) > 0 {
		for i, s := range a.infra {
			if i < 5 {
				fmt.Fprintf(os.Stderr, "check: infrastructure error: %s\n", s)
			}
		}
		if exit == 0 {
			exit = 2
		}
	}
	if a.mismatch > 0 {
		fmt.Fprintf(os.Stderr, "check: %d runs were not reproducible (trace-hash mismatch on re-execution)\n", a.mismatch)
		if exit == 0 {
			exit = 2
		}
	}
	if a.evals == 0 {
		fmt.Fprintf(os.Stderr, "check: no run completed\n")
		exit = 2
	}
	writeEvidence(ps, tier, seed, a, time.Since(start).Seconds(), searchWall, reported, knownSeen, exit)
	fmt.Printf("%s %s: %d runs, %d distinct non-trivial schedules, %.0f simulated s, %d unlisted violation classes, %d known-finding classes, exit %d (%.1fs)\n",
		prop, tier, a.evals, len(a.hashes), float64(a.simUS)/1e6, len(reported), len(knownSeen), exit, time.Since(start).Seconds())
	cleanup()
	os.Exit(exit)
}

// runScenario runs seeds on all cores until the time budget is used. Every
// simulated execution is its own OS process: package-level state of the
// instrumented code (lazily created buffer pools, the global task scheduler)
// would otherwise make a run depend on its position in a batch, and a replay
// in a fresh process would not be the same execution.
func runScenario(a *agg, name, tier string, seed uint64, budget time.Duration) {
	// two sample plans for the evidence file
	if res, _, _ := runWorker(Spec{Scenario: name, Tier: tier, Base: seed, Start: 0, Count: 1, KeepChoices: true}, 5*time.Minute); len(res) == 1 && res[0].Plan != nil {
		a.mu.Lock()
		if len(a.samples) < 4 {
			smp, _ := json.Marshal(map[string]any{"scenario": name, "index": 0, "seed": res[0].Seed, "steps": res[0].Steps, "trace_hash": res[0].Hash, "plan": res[0].Plan})
			a.samples = append(a.samples, smp)
		}
		a.mu.Unlock()
	}
	deadline := time.Now().Add(budget)
	var next uint64
	var nmu sync.Mutex
	var wg sync.WaitGroup
	for w := 0; w < workers; w++ {
		wg.Add(1)
		go func() {
			defer wg.Done()
			for time.Now().Before(deadline) {
				if stopOnViolation {
					a.mu.Lock()
					found := firstUnlisted(a) != ""
					a.mu.Unlock()
					if found {
						return
					}
				}
				nmu.Lock()
				idx := next
				next++
				nmu.Unlock()
				spec := Spec{Scenario: name, Tier: tier, Base: seed, Start: idx, Count: 1}
				res, exit, stderr := runWorker(spec, 2*time.Minute)
				if len(res) != 1 {
					a.mu.Lock()
					a.infra = append(a.infra, fmt.Sprintf("worker for %s run %d exited %d without a result: %s", name, idx, exit, tail(stderr, 2000)))
					a.mu.Unlock()
					continue
				}
				r := res[0]
				if idx%40 == 0 && r.Infra == "" {
					// determinism self-check: the same seed in another process, with another number of
					// OS threads, must give the same trace
					res2, _, _ := runWorkerProcs(spec, 2*time.Minute, []int{1, 4, 16}[(idx/40)%3])
					a.mu.Lock()
					a.rechecked++
					a.mu.Unlock()
					if len(res2) != 1 || res2[0].Hash != r.Hash || res2[0].Steps != r.Steps {
						r.Mismatch = true
					}
				}
				a.add(r)
			}
		}()
	}
	wg.Wait()
}

var stopOnViolation bool
var smokeKnown knownFile
var smokeProp string

// firstUnlisted returns the first violation signature of a that is not a listed known finding.
func firstUnlisted(a *agg) string {
	for _, r := range a.viol {
		for _, v := range r.Violations {
			if _, ok := smokeKnown.match(smokeProp, v.Sig); !ok {
				return v.Sig
			}
		}
	}
	return ""
}

// smokeMain: one build, then every scenario of the listed properties (comma separated, or ALL) for
// VERIF_BUDGET_SEC seconds each (default 10), stopping at the first violation. No minimisation, no
// evidence: a cheap "does anything notice this change" sweep used for mutation analysis.
func smokeMain(list string) int {
	var ids []string
	if list == "ALL" {
		for id := range props {
			ids = append(ids, id)
		}
		sort.Strings(ids)
	} else {
		ids = strings.Split(list, ",")
	}
	secs := 10
	if v := os.Getenv("VERIF_BUDGET_SEC"); v != "" {
		if n, err := strconv.Atoi(v); err == nil {
			secs = n
		}
	}
	seed := baseSeed()
	build()
	defer cleanup()
	stopOnViolation = true
	smokeKnown = loadKnown()
	for _, id := range ids {
		ps, ok := props[id]
		if !ok {
			die(2, "unknown property %s", id)
		}
		smokeProp = id
		for _, sb := range ps.Scenarios {
			a := &agg{hashes: map[string]bool{}, faults: map[string]int{}, probes: map[string]int{}, perScenario: map[string]int{}, panicClasses: map[string]int{}, points: map[string]bool{}, spawns: map[string]int{}}
			runScenario(a, sb.Name, "quick", seed, time.Duration(secs)*time.Second)
			if len(a.infra) > 0 {
				fmt.Printf("SMOKE-RESULT infra %s: %s\n", sb.Name, a.infra[0])
				cleanup()
				return 2
			}
			if sig := firstUnlisted(a); sig != "" {
				fmt.Printf("SMOKE-RESULT caught property=%s scenario=%s signature=%s\n", id, sb.Name, sig)
				cleanup()
				return 1
			}
		}
	}
	fmt.Println("SMOKE-RESULT clean")
	return 0
}

func tail(s string, n int) string {
	if len(s) > n {
		return s[len(s)-n:]
	}
	return s
}

func hasSig(r *Result, sig string) bool {
	for _, v := range r.Violations {
		if v.Sig == sig {
			return true
		}
	}
	return false
}

// tryReplay runs a replay file in a fresh process.
func tryReplay(rp *Replay) (*Result, error) {
	f, _ := os.CreateTemp(scratch, "replay-*.json")
	b, _ := json.Marshal(rp)
	f.Write(b)
	f.Close()
	defer os.Remove(f.Name())
	res, exit, stderr := runWorker(Spec{Replay: f.Name(), Scenario: rp.Scenario}, 90*time.Second)
	if os.Getenv("VERIF_DEBUG") != "" {
		fmt.Fprint(os.Stderr, stderr)
	}
	if len(res) != 1 {
		return nil, fmt.Errorf("replay produced %d results (exit %d): %s", len(res), exit, tail(stderr, 1500))
	}
	return &res[0], nil
}

func replayMain(path string) int {
	b, err := os.ReadFile(path)
	if err != nil {
		die(2, "%v", err)
	}
	var rp Replay
	if err := json.Unmarshal(b, &rp); err != nil {
		die(2, "bad replay file: %v", err)
	}
	build()
	defer cleanup()
	r, err := tryReplay(&rp)
	if err != nil {
		fmt.Fprintln(os.Stderr, "check:", err)
		cleanup()
		return 2
	}
	fmt.Printf("replay %s: steps=%d hash=%s (recorded %s)\n", path, r.Steps, r.Hash, rp.Hash)
	for _, v := range r.Violations {
		fmt.Printf("  violation %s: %s\n", v.Sig, v.Detail)
	}
	for _, p := range r.Panics {
		fmt.Printf("  panic in %s (%s): %s\n", p.G, p.Site, p.Value)
	}
	if hasSig(r, rp.Signature) {
		fmt.Printf("VIOLATION property=%s replay=%s\n", rp.Property, path)
		cleanup()
		return 1
	}
	fmt.Printf("replay did not reproduce signature %s on this tree\n", rp.Signature)
	cleanup()
	return 0
}

func writeEvidence(ps propSpec, tier string, seed uint64, a *agg, wall, searchWall float64, reported []map[string]any, knownSeen map[string]int, exit int) {
	perHour := 0.0
	if searchWall > 0 {
		perHour = float64(a.evals) / searchWall * 3600
	}
	samples := a.samples
	if len(samples) == 0 {
		samples = []json.RawMessage{json.RawMessage(`"no sample captured"`)}
	}
	ev := map[string]any{
		"property_id": ps.ID,
		"tier":        tier,
		"seed":        int64(seed & 0x7fffffffffffffff),
		"level":       ps.Level,
		"wall_s":      wall,
		"violations":  len(reported),
		"coverage": map[string]any{
			"evaluations":         a.evals,
			"distinct_nontrivial": len(a.hashes),
			"rule":                ps.Rule,
			"samples":             samples,
			"runs_per_hour":       perHour,
			"seeds_per_hour":      perHour,
			"simulated_seconds":   float64(a.simUS) / 1e6,
			"scheduling_steps":    a.steps,
			"calls_issued":        a.calls,
			"goroutines_spawned":  a.goroutines,
			"faults_fired":        a.faults,
			"probes_hit":          a.probes,
			"budget_exhausted":    a.budget,
			"runs_hung":           a.hung,
			"runs_with_panic":     a.panicRuns,
			"panic_classes":       a.panicClasses,
			"first_hung_run":      a.hungSample,
			"runs_left_dirty":     a.dirty,
			"determinism_rechecks":        a.rechecked,
			"determinism_rechecks_failed": a.mismatch,
			"runs_per_scenario":   a.perScenario,
			"distinct_fault_points_fired": len(a.points),
			"library_goroutines_by_spawn_site": a.spawns,
			"known_findings_seen": knownSeen,
			"reported":            reported,
			"exhaustive":          false,
			"components": map[string]any{
				"real_instrumented":   []string{"github.com/hslam/rpc (working tree of /repo)", "hslam/scheduler", "hslam/buffer", "hslam/writer", "hslam/socket (messages framing)", "hslam/netpoll (netServer fallback, handler)", "hslam/atomic", "hslam/funcs", "hslam/log"},
				"real_uninstrumented": []string{"Go standard library (context, encoding/json, reflect, time on the synctest fake clock)"},
				"stub_or_simulated":   []string{"network endpoints and kernel (simnet instead of tcp/unix/http/ws sockets, TLS)", "netpoll epoll workers (dispatcher model)", "sync, sync/atomic, math/rand (cooperative shims)", "puppet peers", "fake RoundTripper (Client scenarios)"},
			},
		},
		"assumptions": ps.Assume,
	}
	b, _ := json.MarshalIndent(ev, "", " ")
	os.MkdirAll(filepath.Join(verifDir, "evidence"), 0o755)
	os.WriteFile(filepath.Join(verifDir, "evidence", ps.ID+".json"), b, 0o644)
}
