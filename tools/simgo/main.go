// simgo rewrites Go packages in place so that they run under verif/sim/simrt:
//
//	R1-R3  sync, sync/atomic, math/rand imports -> cooperative shims
//	R4     go statements -> simrt.GoLib (registered goroutine, args evaluated at the go statement)
//	R5     scheduling point after every statement that receives/sends on a channel, sleeps or Goscheds
//	R6     multi-way select: PRNG-ordered non-blocking poll, then the original blocking select
//	R7     range over a map: canonical key order permuted by the PRNG
//	R9     optional scheduling point at function entry (simrt.Entry)
//
// usage: simgo [-entry] dir...   (each dir is a module root; all packages ./... in it are rewritten)
package main

import (
	"bytes"
	"flag"
	"fmt"
	"go/ast"
	"go/format"
	"go/token"
	"go/types"
	"os"
	"path/filepath"
	"strconv"
	"strings"

	"golang.org/x/tools/go/ast/astutil"
	"golang.org/x/tools/go/packages"
)

var (
	entryFlag = flag.Bool("entry", true, "insert simrt.Entry at function entry")
	verbose   = flag.Bool("v", false, "verbose")
)

type stats struct {
	files, gos, yields, selects, selectsSkipped, mapRanges, chanRanges, noteKeys, entries, imports, warnings int
}

var st stats

func main() {
	flag.Parse()
	if flag.NArg() == 0 {
		fmt.Fprintln(os.Stderr, "usage: simgo dir...")
		os.Exit(2)
	}
	for _, dir := range flag.Args() {
		if err := rewriteModule(dir); err != nil {
			fmt.Fprintf(os.Stderr, "simgo: %s: %v\n", dir, err)
			os.Exit(2)
		}
	}
	fmt.Printf("simgo: files=%d go=%d yields=%d selects=%d (skipped %d) mapranges=%d chanranges=%d notekeys=%d entries=%d imports=%d warnings=%d\n",
		st.files, st.gos, st.yields, st.selects, st.selectsSkipped, st.mapRanges, st.chanRanges, st.noteKeys, st.entries, st.imports, st.warnings)
}

func rewriteModule(dir string) error {
	abs, err := filepath.Abs(dir)
	if err != nil {
		return err
	}
	cfg := &packages.Config{
		Mode: packages.NeedName | packages.NeedFiles | packages.NeedCompiledGoFiles | packages.NeedImports |
			packages.NeedTypes | packages.NeedSyntax | packages.NeedTypesInfo | packages.NeedTypesSizes,
		Dir:   abs,
		Tests: false,
		Env:   os.Environ(),
	}
	pkgs, err := packages.Load(cfg, "./...")
	if err != nil {
		return err
	}
	bad := false
	for _, p := range pkgs {
		for _, e := range p.Errors {
			fmt.Fprintf(os.Stderr, "simgo: %s: %v\n", p.PkgPath, e)
			bad = true
		}
	}
	if bad {
		return fmt.Errorf("packages contain errors")
	}
	for _, p := range pkgs {
		if *verbose {
			fmt.Fprintf(os.Stderr, "simgo: package %s: %d files\n", p.PkgPath, len(p.Syntax))
		}
		for i, f := range p.Syntax {
			name := p.CompiledGoFiles[i]
			if !strings.HasPrefix(name, abs+string(filepath.Separator)) {
				continue
			}
			if strings.HasSuffix(name, "_test.go") {
				continue
			}
			rw := &rewriter{pkg: p, file: f, fset: p.Fset, info: p.TypesInfo, synth: map[ast.Node]bool{}}
			if rw.rewrite() {
				var buf bytes.Buffer
				if err := format.Node(&buf, p.Fset, f); err != nil {
					return fmt.Errorf("%s: %v", name, err)
				}
				if err := os.WriteFile(name, buf.Bytes(), 0o644); err != nil {
					return err
				}
				st.files++
			}
		}
	}
	return nil
}

type rewriter struct {
	pkg     *packages.Package
	file    *ast.File
	fset    *token.FileSet
	info    *types.Info
	synth   map[ast.Node]bool
	changed bool
	useRT   bool
	fn      string
	n       int
}

func (rw *rewriter) uniq(prefix string) string {
	rw.n++
	return fmt.Sprintf("__%s%d", prefix, rw.n)
}

func (rw *rewriter) warn(pos token.Pos, msg string) {
	st.warnings++
	fmt.Fprintf(os.Stderr, "simgo: warning: %s: %s\n", rw.fset.Position(pos), msg)
}

func (rw *rewriter) rewrite() bool {
	// R1-R3 imports
	for _, imp := range rw.file.Imports {
		path, _ := strconv.Unquote(imp.Path.Value)
		var np, name string
		switch path {
		case "sync":
			np, name = "verif/sim/simsync", "sync"
		case "sync/atomic":
			np, name = "verif/sim/simatomic", "atomic"
		case "math/rand":
			np, name = "verif/sim/simrand", "rand"
		default:
			continue
		}
		imp.Path.Value = strconv.Quote(np)
		if imp.Name == nil {
			imp.Name = ast.NewIdent(name)
		}
		rw.changed = true
		st.imports++
	}
	for _, d := range rw.file.Decls {
		fd, ok := d.(*ast.FuncDecl)
		if !ok {
			// function literals in package-level vars
			rw.fn = "init"
			rw.walk(d)
			continue
		}
		if fd.Body == nil {
			continue
		}
		rw.fn = fd.Name.Name
		if fd.Recv != nil && len(fd.Recv.List) > 0 {
			rw.fn = recvName(fd.Recv.List[0].Type) + "." + fd.Name.Name
		}
		rw.walk(fd.Body)
		if *entryFlag && len(fd.Body.List) > 0 {
			site := rw.pkg.Name + "." + rw.fn
			call := &ast.ExprStmt{X: rw.rtCall("Entry", &ast.BasicLit{Kind: token.STRING, Value: strconv.Quote(site)})}
			fd.Body.List = append([]ast.Stmt{call}, fd.Body.List...)
			st.entries++
		}
	}
	if rw.useRT {
		astutil.AddNamedImport(rw.fset, rw.file, "simrt", "verif/sim/simrt")
		rw.changed = true
	}
	if rw.changed {
		// keep only directive comments: free-floating comments can end up in
		// the wrong place once statements without positions are inserted
		var keep []*ast.CommentGroup
		for _, cg := range rw.file.Comments {
			var list []*ast.Comment
			for _, c := range cg.List {
				if strings.HasPrefix(c.Text, "//go:") || strings.HasPrefix(c.Text, "// +build") {
					list = append(list, c)
				}
			}
			if len(list) > 0 {
				keep = append(keep, &ast.CommentGroup{List: list})
			}
		}
		rw.file.Comments = keep
		rw.file.Doc = nil
	}
	return rw.changed
}

func recvName(e ast.Expr) string {
	switch t := e.(type) {
	case *ast.StarExpr:
		return recvName(t.X)
	case *ast.Ident:
		return t.Name
	case *ast.IndexExpr:
		return recvName(t.X)
	case *ast.IndexListExpr:
		return recvName(t.X)
	}
	return "?"
}

func (rw *rewriter) rtCall(name string, args ...ast.Expr) *ast.CallExpr {
	rw.useRT = true
	rw.changed = true
	return &ast.CallExpr{Fun: &ast.SelectorExpr{X: ast.NewIdent("simrt"), Sel: ast.NewIdent(name)}, Args: args}
}

func (rw *rewriter) yieldStmt() ast.Stmt {
	st.yields++
	s := &ast.ExprStmt{X: rw.rtCall("Yield")}
	rw.synth[s] = true
	return s
}

// walk rewrites every statement list below n.
func (rw *rewriter) walk(n ast.Node) {
	ast.Inspect(n, func(n ast.Node) bool {
		if n == nil || rw.synth[n] {
			return n != nil && !rw.synth[n]
		}
		switch x := n.(type) {
		case *ast.BlockStmt:
			x.List = rw.list(x.List)
		case *ast.CaseClause:
			x.Body = rw.list(x.Body)
		case *ast.CommClause:
			x.Body = rw.list(x.Body)
			if x.Comm != nil && !rw.synth[x] {
				// a receive/send case that was not rewritten: scheduling point first
				x.Body = append([]ast.Stmt{rw.yieldStmt()}, x.Body...)
			}
		}
		return true
	})
}

func (rw *rewriter) list(in []ast.Stmt) []ast.Stmt {
	var out []ast.Stmt
	for _, s := range in {
		if rw.synth[s] {
			out = append(out, s)
			continue
		}
		pre, repl, post := rw.stmt(s)
		out = append(out, pre...)
		out = append(out, repl)
		out = append(out, post...)
	}
	return out
}

// blocking reports whether the expressions evaluated directly by s (not in
// nested function literals or statement bodies) contain a channel operation,
// time.Sleep or runtime.Gosched.
func (rw *rewriter) blocking(nodes ...ast.Node) (found bool, gosched bool) {
	found, gosched, _ = rw.blocking3(nodes...)
	return
}

// blocking3 also reports whether a channel operation proper (send, receive, close) is among them:
// those get a scheduling point in front as well (they act on shared state: a send racing with a
// close, a non-blocking send racing with a receiver arriving), not only the hand-back behind.
func (rw *rewriter) blocking3(nodes ...ast.Node) (found bool, gosched bool, chanop bool) {
	for _, n := range nodes {
		if n == nil {
			continue
		}
		ast.Inspect(n, func(n ast.Node) bool {
			switch x := n.(type) {
			case *ast.FuncLit, *ast.BlockStmt:
				return false
			case *ast.UnaryExpr:
				if x.Op == token.ARROW {
					found = true
					chanop = true
				}
			case *ast.SendStmt:
				found = true
				chanop = true
			case *ast.CallExpr:
				if id, ok := x.Fun.(*ast.Ident); ok && id.Name == "close" && len(x.Args) == 1 {
					if obj := rw.pkg.TypesInfo.Uses[id]; obj != nil && obj.Pkg() == nil {
						chanop = true
					}
				}
				if sel, ok := x.Fun.(*ast.SelectorExpr); ok {
					if id, ok := sel.X.(*ast.Ident); ok {
						if id.Name == "time" && sel.Sel.Name == "Sleep" {
							found = true
						}
						if id.Name == "runtime" && sel.Sel.Name == "Gosched" {
							found = true
							gosched = true
						}
					}
				}
			}
			return true
		})
	}
	return
}

func (rw *rewriter) stmt(s ast.Stmt) (pre []ast.Stmt, repl ast.Stmt, post []ast.Stmt) {
	repl = s
	switch x := s.(type) {
	case *ast.LabeledStmt:
		p, r, q := rw.stmt(x.Stmt)
		x.Stmt = r
		return p, x, q
	case *ast.GoStmt:
		return nil, rw.goStmt(x), nil
	case *ast.SelectStmt:
		return []ast.Stmt{rw.yieldStmt()}, rw.selectStmt(x), nil
	case *ast.RangeStmt:
		return rw.rangeStmt(x)
	case *ast.ExprStmt, *ast.AssignStmt, *ast.SendStmt, *ast.DeclStmt, *ast.IncDecStmt:
		if as, ok := s.(*ast.AssignStmt); ok {
			pre = rw.noteKeys(as)
		}
		found, gosched, chanop := rw.blocking3(s)
		if chanop {
			pre = append(pre, rw.yieldStmt())
		}
		if found {
			if gosched {
				g := &ast.ExprStmt{X: rw.rtCall("Gosched")}
				rw.synth[g] = true
				post = append(post, g)
			} else {
				post = append(post, rw.yieldStmt())
			}
		}
	case *ast.IfStmt:
		if found, _ := rw.blocking(x.Init, x.Cond); found {
			rw.warn(x.Pos(), "channel operation in if header: no scheduling point inserted")
		}
	case *ast.ForStmt:
		if found, _ := rw.blocking(x.Init, x.Cond, x.Post); found {
			rw.warn(x.Pos(), "channel operation in for header: no scheduling point inserted")
		}
	case *ast.SwitchStmt:
		if found, _ := rw.blocking(x.Init, x.Tag); found {
			rw.warn(x.Pos(), "channel operation in switch header: no scheduling point inserted")
		}
	case *ast.ReturnStmt:
		if found, _ := rw.blocking(s); found {
			rw.warn(x.Pos(), "channel operation in return: no scheduling point inserted")
		}
	}
	return
}

func (rw *rewriter) site(pos token.Pos) ast.Expr {
	p := rw.fset.Position(pos)
	return &ast.BasicLit{Kind: token.STRING, Value: strconv.Quote(fmt.Sprintf("%s.%s:%s:%d", rw.pkg.Name, rw.fn, filepath.Base(p.Filename), p.Line))}
}

// R4
func (rw *rewriter) goStmt(g *ast.GoStmt) ast.Stmt {
	st.gos++
	call := g.Call
	var stmts []ast.Stmt
	fun := call.Fun
	if _, isLit := fun.(*ast.FuncLit); !isLit {
		name := rw.uniq("gf")
		stmts = append(stmts, &ast.AssignStmt{Lhs: []ast.Expr{ast.NewIdent(name)}, Tok: token.DEFINE, Rhs: []ast.Expr{fun}})
		fun = ast.NewIdent(name)
	}
	var args []ast.Expr
	for _, a := range call.Args {
		name := rw.uniq("ga")
		stmts = append(stmts, &ast.AssignStmt{Lhs: []ast.Expr{ast.NewIdent(name)}, Tok: token.DEFINE, Rhs: []ast.Expr{a}})
		args = append(args, ast.NewIdent(name))
	}
	inner := &ast.CallExpr{Fun: fun, Args: args, Ellipsis: call.Ellipsis}
	if call.Ellipsis != token.NoPos {
		inner.Ellipsis = 1
	}
	if _, isLit := fun.(*ast.FuncLit); isLit {
		inner.Fun = &ast.ParenExpr{X: fun}
	}
	lit := &ast.FuncLit{Type: &ast.FuncType{Params: &ast.FieldList{}}, Body: &ast.BlockStmt{List: []ast.Stmt{&ast.ExprStmt{X: inner}}}}
	spawn := &ast.ExprStmt{X: rw.rtCall("GoLib", rw.site(g.Pos()), lit)}
	rw.synth[spawn] = false
	if len(stmts) == 0 {
		return spawn
	}
	stmts = append(stmts, spawn)
	return &ast.BlockStmt{List: stmts}
}

// R6
func (rw *rewriter) selectStmt(s *ast.SelectStmt) ast.Stmt {
	var comm []*ast.CommClause
	hasDefault := false
	simple := true
	for _, c := range s.Body.List {
		cc := c.(*ast.CommClause)
		if cc.Comm == nil {
			hasDefault = true
			continue
		}
		comm = append(comm, cc)
		es, ok := cc.Comm.(*ast.ExprStmt)
		if !ok {
			simple = false
			continue
		}
		if u, ok := es.X.(*ast.UnaryExpr); !ok || u.Op != token.ARROW {
			simple = false
		}
	}
	if len(comm) < 2 || hasDefault {
		return s // single-case or non-blocking select: the CommClause visitor adds the scheduling point
	}
	if !simple {
		st.selectsSkipped++
		rw.warn(s.Pos(), "multi-way select with value-receiving or send cases: left to the Go runtime")
		return s
	}
	st.selects++
	sel := rw.uniq("sel")
	idx := rw.uniq("i")
	mk := func(i int, withDefault bool, cc *ast.CommClause) *ast.CommClause {
		c := &ast.CommClause{Comm: &ast.ExprStmt{X: cc.Comm.(*ast.ExprStmt).X}, Body: []ast.Stmt{
			&ast.AssignStmt{Lhs: []ast.Expr{ast.NewIdent(sel)}, Tok: token.ASSIGN, Rhs: []ast.Expr{&ast.BasicLit{Kind: token.INT, Value: strconv.Itoa(i)}}},
		}}
		rw.synth[c] = true
		return c
	}
	// poll loop
	var pollCases []ast.Stmt
	for i, cc := range comm {
		def := &ast.CommClause{}
		rw.synth[def] = true
		one := &ast.SelectStmt{Body: &ast.BlockStmt{List: []ast.Stmt{mk(i, true, cc), def}}}
		rw.synth[one] = true
		pollCases = append(pollCases, &ast.CaseClause{List: []ast.Expr{&ast.BasicLit{Kind: token.INT, Value: strconv.Itoa(i)}}, Body: []ast.Stmt{one}})
	}
	pollSwitch := &ast.SwitchStmt{Tag: ast.NewIdent(idx), Body: &ast.BlockStmt{List: pollCases}}
	brk := &ast.IfStmt{Cond: &ast.BinaryExpr{X: ast.NewIdent(sel), Op: token.GEQ, Y: &ast.BasicLit{Kind: token.INT, Value: "0"}},
		Body: &ast.BlockStmt{List: []ast.Stmt{&ast.BranchStmt{Tok: token.BREAK}}}}
	loop := &ast.RangeStmt{Key: ast.NewIdent("_"), Value: ast.NewIdent(idx), Tok: token.DEFINE,
		X:    rw.rtCall("SelectOrder", &ast.BasicLit{Kind: token.INT, Value: strconv.Itoa(len(comm))}),
		Body: &ast.BlockStmt{List: []ast.Stmt{pollSwitch, brk}}}
	// blocking select
	var blkCases []ast.Stmt
	for i, cc := range comm {
		blkCases = append(blkCases, mk(i, false, cc))
	}
	blk := &ast.SelectStmt{Body: &ast.BlockStmt{List: blkCases}}
	rw.synth[blk] = true
	ifBlk := &ast.IfStmt{Cond: &ast.BinaryExpr{X: ast.NewIdent(sel), Op: token.LSS, Y: &ast.BasicLit{Kind: token.INT, Value: "0"}},
		Body: &ast.BlockStmt{List: []ast.Stmt{blk}}}
	// dispatch
	var bodyCases []ast.Stmt
	for i, cc := range comm {
		bodyCases = append(bodyCases, &ast.CaseClause{List: []ast.Expr{&ast.BasicLit{Kind: token.INT, Value: strconv.Itoa(i)}}, Body: cc.Body})
	}
	// a default clause that panics keeps the switch a terminating statement when every case terminates
	unreachable := &ast.CaseClause{Body: []ast.Stmt{&ast.ExprStmt{X: &ast.CallExpr{Fun: ast.NewIdent("panic"), Args: []ast.Expr{&ast.BasicLit{Kind: token.STRING, Value: `"simgo: unreachable select case"`}}}}}}
	rw.synth[unreachable] = true
	bodyCases = append(bodyCases, unreachable)
	dispatch := &ast.SwitchStmt{Tag: ast.NewIdent(sel), Body: &ast.BlockStmt{List: bodyCases}}
	decl := &ast.AssignStmt{Lhs: []ast.Expr{ast.NewIdent(sel)}, Tok: token.DEFINE, Rhs: []ast.Expr{&ast.UnaryExpr{Op: token.SUB, X: &ast.BasicLit{Kind: token.INT, Value: "1"}}}}
	for _, n := range []ast.Node{pollSwitch, brk, loop, ifBlk, decl} {
		rw.synth[n] = true
	}
	for _, n := range pollCases {
		rw.synth[n] = true
	}
	y := rw.yieldStmt()
	return &ast.BlockStmt{List: []ast.Stmt{decl, loop, ifBlk, y, dispatch}}
}

// R7
func (rw *rewriter) rangeStmt(r *ast.RangeStmt) (pre []ast.Stmt, repl ast.Stmt, post []ast.Stmt) {
	repl = r
	tv, ok := rw.info.Types[r.X]
	if !ok {
		return
	}
	switch tv.Type.Underlying().(type) {
	case *types.Chan:
		st.chanRanges++
		r.Body.List = append([]ast.Stmt{rw.yieldStmt()}, r.Body.List...)
		return
	case *types.Map:
	default:
		return
	}
	st.mapRanges++
	m := rw.uniq("m")
	pre = append(pre, &ast.AssignStmt{Lhs: []ast.Expr{ast.NewIdent(m)}, Tok: token.DEFINE, Rhs: []ast.Expr{r.X}})
	rw.synth[pre[0]] = true
	key := r.Key
	tok := r.Tok
	blankKey := key == nil
	if id, ok := key.(*ast.Ident); ok && id.Name == "_" {
		blankKey = true
	}
	if blankKey {
		key = ast.NewIdent(rw.uniq("k"))
		if tok == token.ASSIGN || tok == token.ILLEGAL {
			// `for range m` or `for _, v = range m`: declare the synthetic key
			tok = token.DEFINE
		}
	}
	var head []ast.Stmt
	okName := rw.uniq("ok")
	valIsBlank := r.Value == nil
	if id, ok := r.Value.(*ast.Ident); ok && id.Name == "_" {
		valIsBlank = true
	}
	lookup := &ast.IndexExpr{X: ast.NewIdent(m), Index: key}
	if valIsBlank {
		head = append(head, &ast.AssignStmt{Lhs: []ast.Expr{ast.NewIdent("_"), ast.NewIdent(okName)}, Tok: token.DEFINE, Rhs: []ast.Expr{lookup}})
	} else if r.Tok == token.DEFINE {
		head = append(head, &ast.AssignStmt{Lhs: []ast.Expr{r.Value, ast.NewIdent(okName)}, Tok: token.DEFINE, Rhs: []ast.Expr{lookup}})
	} else {
		head = append(head, &ast.DeclStmt{Decl: &ast.GenDecl{Tok: token.VAR, Specs: []ast.Spec{&ast.ValueSpec{Names: []*ast.Ident{ast.NewIdent(okName)}, Type: ast.NewIdent("bool")}}}})
		head = append(head, &ast.AssignStmt{Lhs: []ast.Expr{r.Value, ast.NewIdent(okName)}, Tok: token.ASSIGN, Rhs: []ast.Expr{lookup}})
	}
	head = append(head, &ast.IfStmt{Cond: &ast.UnaryExpr{Op: token.NOT, X: ast.NewIdent(okName)}, Body: &ast.BlockStmt{List: []ast.Stmt{&ast.BranchStmt{Tok: token.CONTINUE}}}})
	if !valIsBlank && r.Tok == token.DEFINE {
		// avoid "declared and not used" when the body ignores the value
		head = append(head, &ast.AssignStmt{Lhs: []ast.Expr{ast.NewIdent("_")}, Tok: token.ASSIGN, Rhs: []ast.Expr{r.Value}})
	}
	for _, h := range head {
		rw.synth[h] = true
	}
	nr := &ast.RangeStmt{Key: ast.NewIdent("_"), Value: key, Tok: tok, X: rw.rtCall("Keys", ast.NewIdent(m)),
		Body: &ast.BlockStmt{List: append(head, r.Body.List...)}}
	if r.Tok == token.ASSIGN && !blankKey {
		nr.Tok = token.ASSIGN
	}
	// the new range statement is not a map range by type info (no entry), so it is not rewritten again
	return pre, nr, nil
}

// NoteKey before m[k] = v when k is a pointer or interface.
func (rw *rewriter) noteKeys(as *ast.AssignStmt) (pre []ast.Stmt) {
	for _, l := range as.Lhs {
		ix, ok := l.(*ast.IndexExpr)
		if !ok {
			continue
		}
		tv, ok := rw.info.Types[ix.X]
		if !ok {
			continue
		}
		mt, ok := tv.Type.Underlying().(*types.Map)
		if !ok {
			continue
		}
		switch mt.Key().Underlying().(type) {
		case *types.Pointer, *types.Interface:
			s := &ast.ExprStmt{X: rw.rtCall("NoteKey", ix.Index)}
			rw.synth[s] = true
			pre = append(pre, s)
			st.noteKeys++
		}
	}
	return
}
