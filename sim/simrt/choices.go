package simrt

// Choices is the single source of nondeterminism of a run. In search mode
// every draw comes from a splitmix64/xorshift PRNG seeded from the run seed and
// is recorded; in replay mode draws come from the recorded list and, once that
// is exhausted, are 0 (the "simplest" alternative by construction: continue
// the current goroutine / first candidate / no fault).
type Choices struct {
	state  uint64
	replay []uint32
	pos    int
	replaying bool
	rec    []uint32
	record bool
	Draws  int
}

func splitmix(x *uint64) uint64 {
	*x += 0x9e3779b97f4a7c15
	z := *x
	z = (z ^ (z >> 30)) * 0xbf58476d1ce4e5b9
	z = (z ^ (z >> 27)) * 0x94d049bb133111eb
	return z ^ (z >> 31)
}

// Mix derives a sub-seed from a base seed and an index.
func Mix(base uint64, idx uint64) uint64 {
	s := base ^ (idx+1)*0xd6e8feb86659fd93
	return splitmix(&s)
}

// NewChoices returns a recording PRNG-backed choice stream.
func NewChoices(seed uint64, record bool) *Choices {
	return &Choices{state: seed, record: record}
}

// NewReplayChoices returns a choice stream that replays rec.
func NewReplayChoices(rec []uint32) *Choices {
	return &Choices{replay: rec, replaying: true, record: true}
}

// Intn returns a choice in [0,n). n<=1 returns 0 without consuming a draw.
func (c *Choices) Intn(n int) int {
	if n <= 1 {
		return 0
	}
	c.Draws++
	var v uint32
	if c.replaying {
		if c.pos < len(c.replay) {
			v = c.replay[c.pos] % uint32(n)
			c.pos++
		}
	} else {
		v = uint32(splitmix(&c.state) % uint64(n))
	}
	if c.record {
		c.rec = append(c.rec, v)
	}
	return int(v)
}

// Recorded returns the recorded draws.
func (c *Choices) Recorded() []uint32 { return c.rec }

// Rand is a small deterministic PRNG for plan generation (outside the run).
type Rand struct{ s uint64 }

func NewRand(seed uint64) *Rand { return &Rand{s: seed} }
func (r *Rand) Uint64() uint64  { return splitmix(&r.s) }
func (r *Rand) Intn(n int) int {
	if n <= 1 {
		return 0
	}
	return int(r.Uint64() % uint64(n))
}
func (r *Rand) Bool() bool          { return r.Uint64()&1 == 1 }
func (r *Rand) Chance(num, den int) bool { return r.Intn(den) < num }
func (r *Rand) Pick(xs []int) int   { return xs[r.Intn(len(xs))] }
func (r *Rand) Range(lo, hi int) int { // inclusive
	if hi <= lo {
		return lo
	}
	return lo + r.Intn(hi-lo+1)
}
