// Package simrt is the deterministic scheduler under which the instrumented
// hslam/rpc code, its dependencies and the harness run. Exactly one registered
// goroutine (the token holder) makes progress between two decisions of the
// controller; every decision is drawn from the run's choice stream.
package simrt

import (
	"fmt"
	"runtime"
	"runtime/debug"
	"sort"
	"strings"
	"sync"
	"sync/atomic"
	"testing/synctest"
	"time"
)

type gstate int32

const (
	gRunning  gstate = iota // holds the token, or is blocked outside simrt (real channel, timer)
	gRunnable               // parked at a scheduling point; may be released
	gBlocked                // parked on a WaitQ; must be woken before it can be released
	gDone
)

// G is a registered (logical) goroutine.
type G struct {
	ID      string
	key     []int32
	Site    string
	Lib     bool // spawned by instrumented library code (not by the harness)
	ch      chan struct{}
	state   gstate
	spawns  int32
	wq      *WaitQ
	exiting bool
	timedOut bool
	yielded bool
	prio    int
	run     int // consecutive steps as token holder
	StartStep int
	BlockedAt string
}

// PanicInfo records a panic that escaped a registered goroutine.
type PanicInfo struct {
	G     string
	Site  string
	Value string
	Stack string
}

// Options configure a run.
type Options struct {
	Choices   *Choices
	MaxSteps  int           // scheduling-step budget
	MaxSim    time.Duration // simulated-time budget
	StayPermille int        // probability (‰) that the token holder continues at a scheduling point
	PoolMissPermille int    // probability (‰) that a shim Pool.Get ignores its free list
	Strategy  int           // 0 random walk, 1 PCT-like priorities
	PCTDepth  int
	StarveSite string       // goroutines whose spawn site contains this run only when nothing else can
	TraceCap  int           // keep the last N scheduling events (0 = none)
	EntryMask uint64        // R9: functions whose site hash bit is set get an entry scheduling point
}

// Run is one simulated execution.
type Run struct {
	mu       sync.Mutex
	opt      Options
	ch       *Choices
	gids     sync.Map // goid -> *G
	all      []*G
	current  atomic.Pointer[G]
	wake     chan struct{}
	aborting atomic.Bool
	mainG    *G
	mainDone bool
	start    time.Time

	Steps           int
	Switches        int
	Hash            uint64
	BudgetExhausted bool
	Hung            bool
	HungReport      string
	Panics          []PanicInfo
	Trace           []string
	Sites           map[string]int // scheduling events per kind
	seq             uint64         // global event sequence number
	pctChange       map[int]bool
	rootSpawns      int32
	entryMask       uint64
}

var cur atomic.Pointer[Run]

// Current returns the active run, or nil outside a simulation.
func Current() *Run { return cur.Load() }

// Active reports whether a simulation is running.
func Active() bool { return cur.Load() != nil }

func goid() uint64 {
	var buf [40]byte
	n := runtime.Stack(buf[:], false)
	// "goroutine 123 ["
	var id uint64
	for i := 10; i < n; i++ {
		c := buf[i]
		if c < '0' || c > '9' {
			break
		}
		id = id*10 + uint64(c-'0')
	}
	return id
}

func (r *Run) self() *G {
	v, ok := r.gids.Load(goid())
	if !ok {
		return nil
	}
	return v.(*G)
}

// Self returns the calling goroutine's logical id ("" if unregistered).
func Self() string {
	r := cur.Load()
	if r == nil {
		return ""
	}
	if g := r.self(); g != nil {
		return g.ID
	}
	return ""
}

func (r *Run) newG(parent *G, site string, lib bool) *G {
	g := &G{Site: site, Lib: lib, ch: make(chan struct{}, 1)}
	var n int32
	if parent != nil {
		parent.spawns++
		n = parent.spawns
		g.key = append(append([]int32{}, parent.key...), n)
	} else {
		r.rootSpawns++
		n = r.rootSpawns
		g.key = []int32{n}
	}
	var sb strings.Builder
	for i, k := range g.key {
		if i > 0 {
			sb.WriteByte('.')
		}
		fmt.Fprintf(&sb, "%d", k)
	}
	g.ID = sb.String()
	g.state = gRunnable
	g.StartStep = r.Steps
	if r.opt.Strategy == 1 {
		g.prio = 1000 + r.ch.Intn(1000)
	}
	if r.opt.StarveSite != "" && strings.Contains(site, r.opt.StarveSite) {
		g.prio = -1
	}
	r.all = append(r.all, g)
	if lib {
		r.Sites[site]++
	}
	return g
}

// Go starts fn as a registered goroutine of the harness.
func Go(site string, fn func()) { spawn(site, false, fn) }

// GoLib starts fn as a registered goroutine of instrumented library code
// (inserted by the rewriter for every `go` statement).
func GoLib(site string, fn func()) { spawn(site, true, fn) }

func spawn(site string, lib bool, fn func()) {
	r := cur.Load()
	if r == nil {
		go fn()
		return
	}
	parent := r.self()
	r.mu.Lock()
	g := r.newG(parent, site, lib)
	r.mu.Unlock()
	go r.body(g, fn)
}

func (r *Run) body(g *G, fn func()) {
	id := goid()
	r.gids.Store(id, g)
	defer func() {
		if !g.exiting {
			if v := recover(); v != nil {
				st := string(debug.Stack())
				r.mu.Lock()
				r.Panics = append(r.Panics, PanicInfo{G: g.ID, Site: g.Site, Value: fmt.Sprint(v), Stack: st})
				r.mu.Unlock()
				r.aborting.Store(true)
			}
		} else {
			recover()
		}
		r.mu.Lock()
		g.state = gDone
		r.current.CompareAndSwap(g, nil)
		if g == r.mainG {
			r.mainDone = true
		}
		r.mu.Unlock()
		r.gids.Delete(id)
		r.kick()
	}()
	// wait to be scheduled for the first time
	<-g.ch
	if r.aborting.Load() {
		select {}
	}
	fn()
}

func (r *Run) kick() {
	select {
	case r.wake <- struct{}{}:
	default:
	}
}

// Kind of scheduling point (for trace hashing and coverage).
const (
	KYield = iota
	KLock
	KUnlock
	KRLock
	KCond
	KWG
	KAtomic
	KWake
	KOnce
	KGosched
	KNet
	KHarness
	KEntry
	kMax
)

var kindNames = [...]string{"yield", "lock", "unlock", "rlock", "cond", "wg", "atomic", "wake", "once", "gosched", "net", "harness", "entry"}

func (r *Run) note(g *G, kind int) {
	// FNV-1a style mixing of (goroutine, kind)
	h := r.Hash
	for i := 0; i < len(g.ID); i++ {
		h = (h ^ uint64(g.ID[i])) * 1099511628211
	}
	h = (h ^ uint64(kind+1)) * 1099511628211
	r.Hash = h
	if r.opt.TraceCap > 0 {
		if len(r.Trace) >= r.opt.TraceCap {
			copy(r.Trace, r.Trace[1:])
			r.Trace = r.Trace[:len(r.Trace)-1]
		}
		r.Trace = append(r.Trace, g.ID+":"+kindNames[kind])
	}
}

// Yield is a scheduling point of the calling goroutine.
func Yield() { YieldKind(KYield) }

// Gosched is a scheduling point at which the caller prefers to be descheduled.
func Gosched() {
	r := cur.Load()
	if r == nil {
		runtime.Gosched()
		return
	}
	g := r.self()
	if g == nil {
		return
	}
	r.yield(g, KGosched, true)
}

// YieldKind is Yield with a kind tag.
func YieldKind(kind int) {
	r := cur.Load()
	if r == nil {
		return
	}
	g := r.self()
	if g == nil {
		return
	}
	r.yield(g, kind, false)
}

// Enter returns the run and calling goroutine after a scheduling point, or
// (nil,nil) when there is no run or the caller is not a registered goroutine
// (passthrough). Callers must treat g.Dead() as "do nothing".
func Enter(kind int) (*Run, *G) {
	r := cur.Load()
	if r == nil {
		return nil, nil
	}
	g := r.self()
	if g == nil {
		return nil, nil
	}
	if g.exiting {
		return r, g
	}
	r.yield(g, kind, false)
	return r, g
}

// EnterNoYield is Enter without a scheduling point (a goroutine that is not
// the token holder still parks until it is scheduled).
func EnterNoYield() (*Run, *G) {
	r := cur.Load()
	if r == nil {
		return nil, nil
	}
	g := r.self()
	if g == nil {
		return nil, nil
	}
	if g.exiting {
		return r, g
	}
	if r.current.Load() != g {
		r.yield(g, KWake, false)
	}
	return r, g
}

// Dead reports that the goroutine is being torn down at the end of a run;
// shim operations must then be no-ops.
func (g *G) Dead() bool { return g.exiting }

// die freezes the calling goroutine for good. Runs are one per OS process, so
// nothing is torn down: unwinding (Goexit) would run the library's deferred
// cleanup code outside the scheduler's control.
func (r *Run) die(g *G) {
	select {}
}

func (r *Run) yield(g *G, kind int, force bool) {
	if g.exiting {
		return
	}
	if r.aborting.Load() {
		r.die(g)
	}
	if r.current.Load() != g {
		// woken from outside simrt: wait until scheduled
		r.mu.Lock()
		g.state = gRunnable
		r.mu.Unlock()
		r.kick()
		<-g.ch
		if r.aborting.Load() {
			r.die(g)
		}
		return
	}
	r.mu.Lock()
	r.Steps++
	g.run++
	r.note(g, kind)
	if r.Steps >= r.opt.MaxSteps {
		r.BudgetExhausted = true
		r.mu.Unlock()
		r.aborting.Store(true)
		r.kick()
		r.die(g)
	}
	if !force && r.stay(g) {
		r.mu.Unlock()
		return
	}
	if force && r.opt.Strategy == 1 {
		g.prio = r.ch.Intn(1000) // spin hint: the caller wants somebody else to run
	}
	g.yielded = true
	g.state = gRunnable
	r.mu.Unlock()
	r.kick()
	<-g.ch
	if r.aborting.Load() {
		r.die(g)
	}
}

// stay decides whether the token holder continues. Called with r.mu held.
func (r *Run) stay(g *G) bool {
	if r.opt.Strategy == 1 {
		// PCT-like: keep running unless a change point demotes us or we have spun too long
		if r.pctChange[r.Steps] {
			g.prio = r.ch.Intn(1000) // below every initial priority
			return false
		}
		if g.run > 400 { // fairness against spin loops
			g.run = 0
			g.prio = r.ch.Intn(1000)
			return false
		}
		// another goroutine may have become runnable with a higher priority:
		// only the controller knows; switch cheaply every few steps
		return g.run%8 != 0
	}
	p := r.opt.StayPermille
	if p <= 0 {
		return false
	}
	v := r.ch.Intn(1000)
	return v < p
}

// WaitQ is a queue of goroutines blocked inside a shim primitive.
type WaitQ struct {
	gs []*G
}

// Len returns the number of blocked goroutines.
func (q *WaitQ) Len() int { return len(q.gs) }

// Park blocks the calling goroutine on q until it is woken and then scheduled.
// In passthrough mode it returns false immediately.
func Park(q *WaitQ) bool {
	r, g := EnterNoYield()
	if r == nil {
		return false
	}
	r.park(g, q, 0)
	return true
}

// ParkTimeout is Park with a simulated-time limit; it reports whether the
// timeout fired.
func ParkTimeout(q *WaitQ, d time.Duration) (timedOut bool) {
	r, g := EnterNoYield()
	if r == nil {
		return false
	}
	return r.park(g, q, d)
}

func (r *Run) park(g *G, q *WaitQ, d time.Duration) bool {
	if r.aborting.Load() {
		r.die(g)
	}
	r.mu.Lock()
	g.state = gBlocked
	g.wq = q
	g.timedOut = false
	q.gs = append(q.gs, g)
	if r.current.Load() == g {
		r.Steps++
		r.note(g, KWake)
	}
	r.mu.Unlock()
	var t *time.Timer
	if d > 0 {
		t = time.AfterFunc(d, func() {
			r.mu.Lock()
			if g.state == gBlocked && g.wq == q {
				q.remove(g)
				g.wq = nil
				g.timedOut = true
				g.state = gRunnable
			}
			r.mu.Unlock()
			r.kick()
		})
	}
	r.kick()
	<-g.ch
	if t != nil {
		t.Stop()
	}
	if r.aborting.Load() {
		r.die(g)
	}
	return g.timedOut
}

func (q *WaitQ) remove(g *G) {
	for i, x := range q.gs {
		if x == g {
			q.gs = append(q.gs[:i], q.gs[i+1:]...)
			return
		}
	}
}

// WakeAll makes every goroutine blocked on q runnable.
func (q *WaitQ) WakeAll() {
	if len(q.gs) == 0 {
		return
	}
	r := cur.Load()
	if r == nil {
		return
	}
	r.mu.Lock()
	for _, g := range q.gs {
		g.state = gRunnable
		g.wq = nil
	}
	q.gs = q.gs[:0]
	r.mu.Unlock()
	r.kick()
}

// WakeOne makes the longest-waiting goroutine blocked on q runnable.
func (q *WaitQ) WakeOne() bool {
	if len(q.gs) == 0 {
		return false
	}
	r := cur.Load()
	if r == nil {
		return false
	}
	r.mu.Lock()
	g := q.gs[0]
	q.gs = q.gs[1:]
	g.state = gRunnable
	g.wq = nil
	r.mu.Unlock()
	r.kick()
	return true
}

// Choose draws from the run's choice stream ([0,n)); outside a run returns 0.
func Choose(n int) int {
	r := cur.Load()
	if r == nil || n <= 1 {
		return 0
	}
	r.mu.Lock()
	v := r.ch.Intn(n)
	r.mu.Unlock()
	return v
}

// Chance draws a Bernoulli(permille/1000) from the choice stream; 0 draws are "no".
func Chance(permille int) bool {
	if permille <= 0 {
		return false
	}
	return Choose(1000) >= 1000-permille
}

// PoolMiss reports whether a shim Pool.Get should ignore its free list.
func PoolMiss() bool {
	r := cur.Load()
	if r == nil || r.opt.PoolMissPermille <= 0 {
		return false
	}
	return Chance(r.opt.PoolMissPermille)
}

// Seq returns the next global event sequence number.
func Seq() uint64 {
	r := cur.Load()
	if r == nil {
		return 0
	}
	return atomic.AddUint64(&r.seq, 1)
}

// Now returns simulated time elapsed since the start of the run.
func Now() time.Duration {
	r := cur.Load()
	if r == nil {
		return 0
	}
	return time.Since(r.start)
}

// Sleep sleeps in simulated time and then passes a scheduling point.
func Sleep(d time.Duration) {
	time.Sleep(d)
	YieldKind(KHarness)
}

// Abort ends the run as soon as possible.
func Abort() {
	if r := cur.Load(); r != nil {
		r.aborting.Store(true)
		r.kick()
	}
}

// GInfo describes a live goroutine.
type GInfo struct {
	ID, Site, State string
	Lib              bool
}

// Live returns the registered goroutines that have not exited (excluding the caller).
func Live() []GInfo {
	r := cur.Load()
	if r == nil {
		return nil
	}
	me := r.self()
	r.mu.Lock()
	defer r.mu.Unlock()
	var out []GInfo
	for _, g := range r.all {
		if g.state == gDone || g == me {
			continue
		}
		st := "ext-blocked"
		switch g.state {
		case gRunnable:
			st = "runnable"
		case gBlocked:
			st = "blocked"
		}
		out = append(out, GInfo{ID: g.ID, Site: g.Site, State: st, Lib: g.Lib})
	}
	return out
}

// Execute runs main as goroutine "1" under the controller until it returns,
// the run is aborted, or a budget is exhausted. It must be called from the
// root goroutine of a synctest bubble.
func Execute(opt Options, main func()) *Run {
	if opt.MaxSteps <= 0 {
		opt.MaxSteps = 300000
	}
	if opt.MaxSim <= 0 {
		opt.MaxSim = 30 * time.Minute
	}
	r := &Run{opt: opt, ch: opt.Choices, wake: make(chan struct{}, 1), start: time.Now(), Sites: map[string]int{}}
	if opt.Strategy == 1 {
		r.pctChange = map[int]bool{}
		for i := 0; i < opt.PCTDepth; i++ {
			r.pctChange[1+r.ch.Intn(4000)] = true
		}
	}
	r.entryMask = opt.EntryMask
	cur.Store(r)
	defer cur.Store(nil)
	r.mu.Lock()
	g := r.newG(nil, "main", false)
	r.mainG = g
	r.mu.Unlock()
	go r.body(g, main)
	r.loop()
	return r
}

func less(a, b []int32) bool {
	for i := 0; i < len(a) && i < len(b); i++ {
		if a[i] != b[i] {
			return a[i] < b[i]
		}
	}
	return len(a) < len(b)
}

func (r *Run) loop() {
	var cand []*G
	for {
		synctest.Wait()
		select {
		case <-r.wake:
		default:
		}
		r.mu.Lock()
		if r.mainDone || r.aborting.Load() {
			r.mu.Unlock()
			break
		}
		if time.Since(r.start) > r.opt.MaxSim {
			r.Hung = true
			r.HungReport = "simulated-time budget exhausted\n" + r.describeLocked() + allStacks()
			r.mu.Unlock()
			break
		}
		cand = cand[:0]
		var voluntary *G
		for _, g := range r.all {
			if g.state == gRunnable {
				cand = append(cand, g)
			}
		}
		if len(cand) == 0 {
			r.current.Store(nil)
			r.mu.Unlock()
			t := time.NewTimer(r.opt.MaxSim)
			select {
			case <-r.wake:
				t.Stop()
			case <-t.C:
			}
			continue
		}
		sort.Slice(cand, func(i, j int) bool { return less(cand[i].key, cand[j].key) })
		if c := r.current.Load(); c != nil && c.state == gRunnable && c.yielded {
			voluntary = c
		}
		g := r.pick(cand, voluntary)
		if g != r.current.Load() {
			r.Switches++
			g.run = 0
		}
		g.yielded = false
		g.state = gRunning
		r.current.Store(g)
		r.mu.Unlock()
		g.ch <- struct{}{}
	}
	// the run is over: every other goroutine stays parked (one run per process)
	r.aborting.Store(true)
}

// pick chooses the next token holder among cand (sorted by logical id).
// A goroutine that just yielded voluntarily is only chosen if it is alone.
func (r *Run) pick(cand []*G, voluntary *G) *G {
	if len(cand) == 1 {
		return cand[0]
	}
	if r.opt.Strategy == 1 || r.opt.StarveSite != "" {
		// highest priority wins; ties by id order. Starved goroutines have prio -1.
		var best *G
		for _, g := range cand {
			if g == voluntary && len(cand) > 1 && r.opt.Strategy != 1 {
				continue
			}
			if best == nil || g.prio > best.prio {
				best = g
			}
		}
		if r.opt.Strategy == 1 {
			return best
		}
		// random walk among non-starved if any
		var pool []*G
		for _, g := range cand {
			if g.prio >= 0 && g != voluntary {
				pool = append(pool, g)
			}
		}
		if len(pool) == 0 {
			for _, g := range cand {
				if g != voluntary {
					pool = append(pool, g)
				}
			}
		}
		if len(pool) == 0 {
			return cand[0]
		}
		return pool[r.ch.Intn(len(pool))]
	}
	if voluntary != nil {
		n := len(cand) - 1
		i := r.ch.Intn(n)
		for _, g := range cand {
			if g == voluntary {
				continue
			}
			if i == 0 {
				return g
			}
			i--
		}
	}
	return cand[r.ch.Intn(len(cand))]
}

func (r *Run) describeLocked() string {
	var sb strings.Builder
	for _, g := range r.all {
		if g.state == gDone {
			continue
		}
		fmt.Fprintf(&sb, "  g%s site=%s state=%d\n", g.ID, g.Site, g.state)
	}
	return sb.String()
}

// Describe lists the live goroutines.
func (r *Run) Describe() string {
	r.mu.Lock()
	defer r.mu.Unlock()
	return r.describeLocked()
}

// LeftBehind returns how many registered goroutines never exited (blocked
// outside simrt when the run ended).
func (r *Run) LeftBehind() int {
	r.mu.Lock()
	defer r.mu.Unlock()
	n := 0
	for _, g := range r.all {
		if g.state != gDone {
			n++
		}
	}
	return n
}

// SimElapsed returns the simulated time the run covered.
func (r *Run) SimElapsed() time.Duration { return time.Since(r.start) }

// Entry is inserted at the entry of every instrumented function (rule R9). It is
// a scheduling point only for a per-run PRNG-chosen subset of functions.
func Entry(site string) {
	r := cur.Load()
	if r == nil || r.entryMask == 0 {
		return
	}
	// cheap string hash
	var h uint32 = 2166136261
	for i := 0; i < len(site); i++ {
		h = (h ^ uint32(site[i])) * 16777619
	}
	if r.entryMask&(1<<(h%64)) == 0 {
		return
	}
	g := r.self()
	if g == nil {
		return
	}
	r.yield(g, KEntry, false)
}

// Spawned returns how many goroutines were registered during the run.
func (r *Run) Spawned() int {
	r.mu.Lock()
	defer r.mu.Unlock()
	return len(r.all)
}

// AllStacks returns the stacks of all goroutines (debugging aid).
func AllStacks() string { return allStacks() }

func allStacks() string {
	buf := make([]byte, 1<<20)
	n := runtime.Stack(buf, true)
	return string(buf[:n])
}
