package simrt

import (
	"fmt"
	"reflect"
	"sort"
)

var keyIDs struct {
	m    map[any]uint64
	next uint64
}

// ResetKeys forgets noted map keys (between runs).
func ResetKeys() {
	keyIDs.m = nil
	keyIDs.next = 0
}

// NoteKey gives a pointer- or interface-typed map key a stable number at the
// time it is inserted, so that iteration order can be made canonical.
func NoteKey(k any) {
	r := cur.Load()
	if r == nil {
		return
	}
	r.mu.Lock()
	if keyIDs.m == nil {
		keyIDs.m = map[any]uint64{}
	}
	if _, ok := keyIDs.m[k]; !ok {
		keyIDs.next++
		keyIDs.m[k] = keyIDs.next
	}
	r.mu.Unlock()
}

// UnorderedKeys counts map iterations whose keys had no canonical order.
var UnorderedKeys int

// Keys returns the keys of m in an order chosen by the run's choice stream from
// the canonical (sorted) order. Outside a run the canonical order is returned.
func Keys[M ~map[K]V, K comparable, V any](m M) []K {
	n := len(m)
	if n == 0 {
		return nil
	}
	ks := make([]K, 0, n)
	for k := range m {
		ks = append(ks, k)
	}
	if n == 1 {
		return ks
	}
	var zero K
	switch any(zero).(type) {
	case string:
		sort.Slice(ks, func(i, j int) bool { return any(ks[i]).(string) < any(ks[j]).(string) })
	case int:
		sort.Slice(ks, func(i, j int) bool { return any(ks[i]).(int) < any(ks[j]).(int) })
	case uint64:
		sort.Slice(ks, func(i, j int) bool { return any(ks[i]).(uint64) < any(ks[j]).(uint64) })
	case int64:
		sort.Slice(ks, func(i, j int) bool { return any(ks[i]).(int64) < any(ks[j]).(int64) })
	case uint32:
		sort.Slice(ks, func(i, j int) bool { return any(ks[i]).(uint32) < any(ks[j]).(uint32) })
	case int32:
		sort.Slice(ks, func(i, j int) bool { return any(ks[i]).(int32) < any(ks[j]).(int32) })
	default:
		rv := reflect.ValueOf(ks[0])
		switch rv.Kind() {
		case reflect.Int, reflect.Int8, reflect.Int16, reflect.Int32, reflect.Int64:
			sort.Slice(ks, func(i, j int) bool { return reflect.ValueOf(ks[i]).Int() < reflect.ValueOf(ks[j]).Int() })
		case reflect.Uint, reflect.Uint8, reflect.Uint16, reflect.Uint32, reflect.Uint64, reflect.Uintptr:
			sort.Slice(ks, func(i, j int) bool { return reflect.ValueOf(ks[i]).Uint() < reflect.ValueOf(ks[j]).Uint() })
		case reflect.String:
			sort.Slice(ks, func(i, j int) bool { return reflect.ValueOf(ks[i]).String() < reflect.ValueOf(ks[j]).String() })
		default:
			r := cur.Load()
			if r != nil {
				r.mu.Lock()
			}
			ids := make(map[any]uint64, n)
			for _, k := range ks {
				id, ok := keyIDs.m[any(k)]
				if !ok {
					UnorderedKeys++
					id = 1<<62 + uint64(len(ids))
				}
				ids[any(k)] = id
			}
			if r != nil {
				r.mu.Unlock()
			}
			sort.Slice(ks, func(i, j int) bool { return ids[any(ks[i])] < ids[any(ks[j])] })
		}
	}
	if cur.Load() != nil {
		for i := n - 1; i > 0; i-- {
			j := Choose(i + 1)
			ks[i], ks[j] = ks[j], ks[i]
		}
	}
	return ks
}

// SelectOrder returns the order in which the cases of a multi-way select are
// polled before blocking.
func SelectOrder(n int) []int {
	o := make([]int, n)
	for i := range o {
		o[i] = i
	}
	if cur.Load() != nil {
		YieldKind(KYield)
		for i := n - 1; i > 0; i-- {
			j := Choose(i + 1)
			o[i], o[j] = o[j], o[i]
		}
	}
	return o
}

// Fatalf aborts the run with an infrastructure error (never a violation).
func Fatalf(format string, a ...any) {
	panic("simrt: " + fmt.Sprintf(format, a...))
}
