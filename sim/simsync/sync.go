// Package simsync is a drop-in replacement for package sync whose primitives
// are cooperative: a goroutine that has to wait parks inside simrt (a durable
// block for testing/synctest) and every operation is a scheduling point chosen
// by the simulator. Outside a simulation (package init, plain goroutines) the
// primitives still work, by polling.
package simsync

import (
	"runtime"
	"sync"

	"verif/sim/simrt"
)

// Locker is sync.Locker.
type Locker = sync.Locker

type noCopy struct{}

func (*noCopy) Lock()   {}
func (*noCopy) Unlock() {}

// ---------------------------------------------------------------- Mutex

// Mutex is a cooperative mutual exclusion lock.
type Mutex struct {
	mu     sync.Mutex // guards the fields below for an instant only
	locked bool
	wq     simrt.WaitQ
}

func (m *Mutex) tryAcquire() bool {
	m.mu.Lock()
	ok := !m.locked
	if ok {
		m.locked = true
	}
	m.mu.Unlock()
	return ok
}

// Lock locks m.
func (m *Mutex) Lock() {
	r, g := simrt.Enter(simrt.KLock)
	if r == nil {
		for !m.tryAcquire() {
			runtime.Gosched()
		}
		return
	}
	if g.Dead() {
		return
	}
	for !m.tryAcquire() {
		simrt.Park(&m.wq)
		if g.Dead() {
			return
		}
	}
}

// TryLock tries to lock m.
func (m *Mutex) TryLock() bool {
	r, g := simrt.Enter(simrt.KLock)
	if r != nil && g.Dead() {
		return false
	}
	return m.tryAcquire()
}

// Unlock unlocks m.
func (m *Mutex) Unlock() {
	r, g := simrt.EnterNoYield()
	if r != nil && g.Dead() {
		return
	}
	m.mu.Lock()
	if !m.locked {
		m.mu.Unlock()
		panic("sync: unlock of unlocked mutex")
	}
	m.locked = false
	m.mu.Unlock()
	if r != nil {
		m.wq.WakeAll()
	}
}

// ---------------------------------------------------------------- RWMutex

// RWMutex is a cooperative reader/writer lock (a waiting writer blocks new
// readers, as in package sync).
type RWMutex struct {
	mu       sync.Mutex
	writer   bool
	readers  int
	wwaiting int
	wq       simrt.WaitQ
}

func (m *RWMutex) tryW() bool {
	m.mu.Lock()
	ok := !m.writer && m.readers == 0
	if ok {
		m.writer = true
	}
	m.mu.Unlock()
	return ok
}

func (m *RWMutex) tryR() bool {
	m.mu.Lock()
	ok := !m.writer && m.wwaiting == 0
	if ok {
		m.readers++
	}
	m.mu.Unlock()
	return ok
}

// Lock locks m for writing.
func (m *RWMutex) Lock() {
	r, g := simrt.Enter(simrt.KLock)
	if r == nil {
		for !m.tryW() {
			runtime.Gosched()
		}
		return
	}
	if g.Dead() {
		return
	}
	if m.tryW() {
		return
	}
	m.mu.Lock()
	m.wwaiting++
	m.mu.Unlock()
	for {
		simrt.Park(&m.wq)
		if g.Dead() {
			return
		}
		if m.tryW() {
			break
		}
	}
	m.mu.Lock()
	m.wwaiting--
	m.mu.Unlock()
}

// Unlock unlocks m for writing.
func (m *RWMutex) Unlock() {
	r, g := simrt.EnterNoYield()
	if r != nil && g.Dead() {
		return
	}
	m.mu.Lock()
	if !m.writer {
		m.mu.Unlock()
		panic("sync: Unlock of unlocked RWMutex")
	}
	m.writer = false
	m.mu.Unlock()
	if r != nil {
		m.wq.WakeAll()
	}
}

// RLock locks m for reading.
func (m *RWMutex) RLock() {
	r, g := simrt.Enter(simrt.KRLock)
	if r == nil {
		for !m.tryR() {
			runtime.Gosched()
		}
		return
	}
	if g.Dead() {
		return
	}
	for !m.tryR() {
		simrt.Park(&m.wq)
		if g.Dead() {
			return
		}
	}
}

// RUnlock undoes a single RLock call.
func (m *RWMutex) RUnlock() {
	r, g := simrt.EnterNoYield()
	if r != nil && g.Dead() {
		return
	}
	m.mu.Lock()
	if m.readers <= 0 {
		m.mu.Unlock()
		panic("sync: RUnlock of unlocked RWMutex")
	}
	m.readers--
	last := m.readers == 0
	m.mu.Unlock()
	if r != nil && last {
		m.wq.WakeAll()
	}
}

// TryLock tries to lock m for writing.
func (m *RWMutex) TryLock() bool { simrt.YieldKind(simrt.KLock); return m.tryW() }

// TryRLock tries to lock m for reading.
func (m *RWMutex) TryRLock() bool { simrt.YieldKind(simrt.KRLock); return m.tryR() }

// RLocker returns a Locker that calls RLock/RUnlock.
func (m *RWMutex) RLocker() Locker { return (*rlocker)(m) }

type rlocker RWMutex

func (r *rlocker) Lock()   { (*RWMutex)(r).RLock() }
func (r *rlocker) Unlock() { (*RWMutex)(r).RUnlock() }

// ---------------------------------------------------------------- Cond

// Cond is a cooperative condition variable (FIFO wake-up order like sync.Cond).
type Cond struct {
	noCopy noCopy
	L      Locker
	wq     simrt.WaitQ
	mu     sync.Mutex
	plain  int // waiters in passthrough mode
	gen    uint64
}

// NewCond returns a new Cond with Locker l.
func NewCond(l Locker) *Cond { return &Cond{L: l} }

// Wait atomically unlocks c.L and suspends the calling goroutine.
func (c *Cond) Wait() {
	// taking the wait ticket is an operation on shared state (it races with a Broadcast/Signal
	// issued without c.L held), so it is preceded by a scheduling point like every other one
	r, g := simrt.Enter(simrt.KCond)
	if r == nil {
		// passthrough: poll a generation counter
		c.mu.Lock()
		gen := c.gen
		c.plain++
		c.mu.Unlock()
		c.L.Unlock()
		for {
			c.mu.Lock()
			ok := c.gen != gen
			c.mu.Unlock()
			if ok {
				break
			}
			runtime.Gosched()
		}
		c.L.Lock()
		return
	}
	if g.Dead() {
		return
	}
	// sync.Cond takes its ticket before unlocking; here nothing can run between
	// the (non-yielding) Unlock and Park because the caller holds the token.
	c.L.Unlock()
	simrt.Park(&c.wq)
	if g.Dead() {
		return
	}
	c.L.Lock()
}

// Signal wakes one goroutine waiting on c, if there is any.
func (c *Cond) Signal() {
	r, g := simrt.Enter(simrt.KCond)
	if r != nil && g.Dead() {
		return
	}
	c.mu.Lock()
	c.gen++
	c.mu.Unlock()
	if r != nil {
		c.wq.WakeOne()
	}
}

// Broadcast wakes all goroutines waiting on c.
func (c *Cond) Broadcast() {
	r, g := simrt.Enter(simrt.KCond)
	if r != nil && g.Dead() {
		return
	}
	c.mu.Lock()
	c.gen++
	c.mu.Unlock()
	if r != nil {
		c.wq.WakeAll()
	}
}

// ---------------------------------------------------------------- WaitGroup

// WaitGroup transcribes the algorithm of sync.WaitGroup, including its three
// misuse panics and the window between a waiter being woken and it observing
// the state again ("WaitGroup is reused before previous Wait has returned").
type WaitGroup struct {
	noCopy  noCopy
	mu      sync.Mutex
	counter int32
	waiters uint32
	wq      simrt.WaitQ
	sema    uint32 // passthrough wake tokens
}

// Add adds delta to the counter.
func (wg *WaitGroup) Add(delta int) {
	r, g := simrt.Enter(simrt.KWG)
	if r != nil && g.Dead() {
		return
	}
	wg.mu.Lock()
	wg.counter += int32(delta)
	v := wg.counter
	w := wg.waiters
	if v < 0 {
		wg.mu.Unlock()
		panic("sync: negative WaitGroup counter")
	}
	if w != 0 && delta > 0 && v == int32(delta) {
		wg.mu.Unlock()
		panic("sync: WaitGroup misuse: Add called concurrently with Wait")
	}
	if v > 0 || w == 0 {
		wg.mu.Unlock()
		return
	}
	// counter reached zero with waiters present: reset and release them
	wg.counter = 0
	wg.waiters = 0
	wg.sema += w
	wg.mu.Unlock()
	if r != nil {
		wg.wq.WakeAll()
	}
}

// Done decrements the counter.
func (wg *WaitGroup) Done() { wg.Add(-1) }

// Go calls f in a new goroutine and adds that task to the WaitGroup.
func (wg *WaitGroup) Go(f func()) {
	wg.Add(1)
	simrt.GoLib("WaitGroup.Go", func() {
		defer wg.Done()
		f()
	})
}

// Wait blocks until the counter is zero.
func (wg *WaitGroup) Wait() {
	r, g := simrt.Enter(simrt.KWG)
	if r != nil && g.Dead() {
		return
	}
	wg.mu.Lock()
	if wg.counter == 0 {
		wg.mu.Unlock()
		return
	}
	wg.waiters++
	wg.mu.Unlock()
	if r == nil {
		for {
			wg.mu.Lock()
			if wg.sema > 0 {
				wg.sema--
				wg.mu.Unlock()
				break
			}
			wg.mu.Unlock()
			runtime.Gosched()
		}
	} else {
		// The waiter is registered; it is made runnable by the Add that brings
		// the counter to zero and resumes only when the scheduler picks it.
		simrt.Park(&wg.wq)
		if g.Dead() {
			return
		}
		wg.mu.Lock()
		if wg.sema > 0 {
			wg.sema--
		}
		wg.mu.Unlock()
	}
	wg.mu.Lock()
	bad := wg.counter != 0 || wg.waiters != 0
	wg.mu.Unlock()
	if bad {
		panic("sync: WaitGroup is reused before previous Wait has returned")
	}
}

// ---------------------------------------------------------------- Once

// Once performs exactly one action.
type Once struct {
	m    Mutex
	done bool
}

// Do calls f if and only if Do is being called for the first time.
func (o *Once) Do(f func()) {
	simrt.YieldKind(simrt.KOnce)
	if o.done {
		return
	}
	o.m.Lock()
	defer o.m.Unlock()
	if !o.done {
		defer func() { o.done = true }()
		f()
	}
}

// OnceFunc returns a function that invokes f only once.
func OnceFunc(f func()) func() {
	var o Once
	return func() { o.Do(f) }
}

// OnceValue returns a function that invokes f only once and returns its value.
func OnceValue[T any](f func() T) func() T {
	var o Once
	var v T
	return func() T { o.Do(func() { v = f() }); return v }
}

// OnceValues is OnceValue for two results.
func OnceValues[T1, T2 any](f func() (T1, T2)) func() (T1, T2) {
	var o Once
	var a T1
	var b T2
	return func() (T1, T2) { o.Do(func() { a, b = f() }); return a, b }
}

// ---------------------------------------------------------------- Pool

// Pool is a LIFO free list (maximal reuse, which is what exposes aliasing).
// A per-run knob makes Get ignore the list, which sync.Pool may legally do.
// All pools are emptied between runs.
type Pool struct {
	noCopy noCopy
	New    func() any
	mu     sync.Mutex
	items  []any
	listed bool
}

var (
	poolsMu sync.Mutex
	pools   []*Pool
)

// ResetPools empties every pool (called between runs: pooled channels and
// buffers must not cross simulation bubbles).
func ResetPools() {
	poolsMu.Lock()
	for _, p := range pools {
		p.mu.Lock()
		p.items = nil
		p.listed = false
		p.mu.Unlock()
	}
	pools = nil
	poolsMu.Unlock()
}

// Put adds x to the pool.
func (p *Pool) Put(x any) {
	if x == nil {
		return
	}
	if r, g := simrt.EnterNoYield(); r != nil && g.Dead() {
		return
	}
	p.mu.Lock()
	p.items = append(p.items, x)
	listed := p.listed
	p.listed = true
	p.mu.Unlock()
	if !listed {
		poolsMu.Lock()
		pools = append(pools, p)
		poolsMu.Unlock()
	}
}

// Get selects an item from the pool or calls New.
func (p *Pool) Get() any {
	if r, g := simrt.EnterNoYield(); r != nil && !g.Dead() {
		if simrt.PoolMiss() {
			if p.New != nil {
				return p.New()
			}
			return nil
		}
	}
	p.mu.Lock()
	if n := len(p.items); n > 0 {
		x := p.items[n-1]
		p.items[n-1] = nil
		p.items = p.items[:n-1]
		p.mu.Unlock()
		return x
	}
	p.mu.Unlock()
	if p.New != nil {
		return p.New()
	}
	return nil
}

// ---------------------------------------------------------------- Map

// Map is an insertion-ordered concurrent map with the API of sync.Map.
type Map struct {
	mu   sync.Mutex
	m    map[any]*mapEntry
	keys []any
}

type mapEntry struct {
	v    any
	dead bool
}

func (m *Map) init() {
	if m.m == nil {
		m.m = make(map[any]*mapEntry)
	}
}

// Load returns the value stored for key.
func (m *Map) Load(key any) (any, bool) {
	m.mu.Lock()
	defer m.mu.Unlock()
	if e, ok := m.m[key]; ok {
		return e.v, true
	}
	return nil, false
}

// Store sets the value for key.
func (m *Map) Store(key, value any) {
	m.mu.Lock()
	defer m.mu.Unlock()
	m.init()
	if e, ok := m.m[key]; ok {
		e.v = value
		return
	}
	m.m[key] = &mapEntry{v: value}
	m.keys = append(m.keys, key)
}

// Clear deletes all entries.
func (m *Map) Clear() {
	m.mu.Lock()
	m.m = nil
	m.keys = nil
	m.mu.Unlock()
}

// LoadOrStore returns the existing value for key if present, else stores value.
func (m *Map) LoadOrStore(key, value any) (any, bool) {
	m.mu.Lock()
	defer m.mu.Unlock()
	m.init()
	if e, ok := m.m[key]; ok {
		return e.v, true
	}
	m.m[key] = &mapEntry{v: value}
	m.keys = append(m.keys, key)
	return value, false
}

// LoadAndDelete deletes the value for key, returning the previous value.
func (m *Map) LoadAndDelete(key any) (any, bool) {
	m.mu.Lock()
	defer m.mu.Unlock()
	e, ok := m.m[key]
	if !ok {
		return nil, false
	}
	delete(m.m, key)
	for i, k := range m.keys {
		if k == key {
			m.keys = append(m.keys[:i], m.keys[i+1:]...)
			break
		}
	}
	return e.v, true
}

// Delete deletes the value for key.
func (m *Map) Delete(key any) { m.LoadAndDelete(key) }

// Swap swaps the value for key and returns the previous value.
func (m *Map) Swap(key, value any) (any, bool) {
	m.mu.Lock()
	defer m.mu.Unlock()
	m.init()
	if e, ok := m.m[key]; ok {
		old := e.v
		e.v = value
		return old, true
	}
	m.m[key] = &mapEntry{v: value}
	m.keys = append(m.keys, key)
	return nil, false
}

// CompareAndSwap swaps old for new if the stored value equals old.
func (m *Map) CompareAndSwap(key, old, new any) bool {
	m.mu.Lock()
	defer m.mu.Unlock()
	if e, ok := m.m[key]; ok && e.v == old {
		e.v = new
		return true
	}
	return false
}

// CompareAndDelete deletes the entry for key if its value equals old.
func (m *Map) CompareAndDelete(key, old any) bool {
	m.mu.Lock()
	e, ok := m.m[key]
	m.mu.Unlock()
	if ok && e.v == old {
		m.Delete(key)
		return true
	}
	return false
}

// Range calls f for each key and value in insertion order.
func (m *Map) Range(f func(key, value any) bool) {
	m.mu.Lock()
	keys := append([]any(nil), m.keys...)
	m.mu.Unlock()
	for _, k := range keys {
		m.mu.Lock()
		e, ok := m.m[k]
		m.mu.Unlock()
		if !ok {
			continue
		}
		if !f(k, e.v) {
			return
		}
	}
}
