module verif/sim

go 1.26
