// Package simrand mirrors the top-level API of math/rand; inside a simulation
// the global source is the run's choice stream.
package simrand

import (
	"math/rand"

	"verif/sim/simrt"
)

type (
	Rand     = rand.Rand
	Source   = rand.Source
	Source64 = rand.Source64
	Zipf     = rand.Zipf
)

var (
	New       = rand.New
	NewSource = rand.NewSource
	NewZipf   = rand.NewZipf
)

func Seed(seed int64) {}

func Intn(n int) int {
	if n <= 0 {
		panic("invalid argument to Intn")
	}
	if simrt.Active() {
		return simrt.Choose(n)
	}
	return rand.Intn(n)
}
func Int31n(n int32) int32 { return int32(Intn(int(n))) }
func Int63n(n int64) int64 {
	if simrt.Active() {
		if n <= 1<<30 {
			return int64(simrt.Choose(int(n)))
		}
		return (int64(simrt.Choose(1<<30))<<30 | int64(simrt.Choose(1<<30))) % n
	}
	return rand.Int63n(n)
}
func Int() int       { return int(Int63()) }
func Int31() int32   { return int32(Int63() >> 32) }
func Int63() int64   { return Int63n(1<<62) }
func Uint32() uint32 { return uint32(Int63() >> 31) }
func Uint64() uint64 { return uint64(Int63())<<1 ^ uint64(Int63()) }
func Float64() float64 {
	return float64(Int63n(1<<53)) / (1 << 53)
}
func Float32() float32 { return float32(Float64()) }
func Perm(n int) []int {
	m := make([]int, n)
	for i := 0; i < n; i++ {
		j := Intn(i + 1)
		m[i] = m[j]
		m[j] = i
	}
	return m
}
func Shuffle(n int, swap func(i, j int)) {
	for i := n - 1; i > 0; i-- {
		j := Intn(i + 1)
		swap(i, j)
	}
}
func Read(p []byte) (int, error) {
	for i := range p {
		p[i] = byte(Intn(256))
	}
	return len(p), nil
}
func ExpFloat64() float64  { return rand.ExpFloat64() }
func NormFloat64() float64 { return rand.NormFloat64() }
