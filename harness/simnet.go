package harness

import (
	"crypto/tls"
	"errors"
	"fmt"
	"io"
	"net"
	"os"
	"sync/atomic"
	"syscall"
	"time"

	"github.com/hslam/netpoll"
	"github.com/hslam/socket"

	"verif/sim/simrt"
)

// ---------------------------------------------------------------------------
// simnet: a simulated socket.Socket. Connections are pairs of byte streams; the
// real hslam/socket framing (socket.NewMessages) and hslam/writer batching run
// on top of them. All state is touched only by the scheduler's token holder.

// NetConfig are the per-run network knobs (drawn from the plan).
type NetConfig struct {
	FragPermille   int           // probability that a write is split into pieces
	OneChunkReads  bool          // a Read returns at most one delivered piece (no coalescing)
	MaxLatency     time.Duration // per-piece delivery delay in [0,MaxLatency] (0 = immediate)
	Window         int           // max undelivered+unread bytes per direction (0 = unlimited)
	PollMode       int           // how ServeMessages is served: 0 netpoll fallback (real netServer), 1 epoll model
	PollWorkers    int           // epoll model: concurrent serve invocations per connection
	SilentPipe     bool          // writes after a cut succeed silently instead of failing with EPIPE
	LateWriteErr   int           // ‰: a write delivers its bytes and then reports an error (the connection stays usable)
	ResetAsTimeout bool          // a reset is seen by the reader as ETIMEDOUT (keep-alive / retransmission gave up): an error hslam/socket does not translate to io.EOF
}

// Fault kinds counted when they actually fire.
const (
	FFragment = "fragment"
	FCoalesce = "coalesce"
	FDelay    = "delay"
	FFin      = "fin"
	FRst      = "rst"
	FRefuse   = "refuse"
	FKill     = "kill"
	FRestart  = "restart"
	FStall    = "stall"
	FLocalClose = "local-close"
	FWriteErr = "write-error"
	FEpipe    = "epipe"
)

// Net is one simulated network.
type Net struct {
	Cfg       NetConfig
	listeners map[string]*Listener
	Pipes     []*Pipe
	Faults    map[string]int
	Dials     map[string]int
	nextConn  int
	inc       map[string]int
	// DialHook, if set, is consulted before a dial is attempted; a non-nil error refuses it.
	DialHook func(addr string) error
	// OnPipe is called for every new connection (to arm cuts).
	OnPipe func(p *Pipe)
	// TLS: the configuration the socket constructors are expected to receive (nil: none), and what they got.
	// (TLS itself is not simulated: this only observes that the configuration reaches the socket layer.)
	TLSWant                         *tls.Config
	TLSCalls, TLSMissing, TLSExtra int
}

// noteTLS is called by every socket constructor the library invokes for this network.
func (n *Net) noteTLS(c *tls.Config) {
	n.TLSCalls++
	if n.TLSWant != nil && c != n.TLSWant {
		n.TLSMissing++
	}
	if n.TLSWant == nil && c != nil {
		n.TLSExtra++
	}
}

func NewNet(cfg NetConfig) *Net {
	return &Net{Cfg: cfg, listeners: map[string]*Listener{}, Faults: map[string]int{}, Dials: map[string]int{}}
}

func (n *Net) fault(kind string) { n.Faults[kind]++ }

// Socket returns a socket.Socket factory for rpc.Options.NewSocket / rpc.RegisterSocket.
func (n *Net) Socket() socket.Socket { return &simSocket{n: n} }

type simSocket struct{ n *Net }

func (s *simSocket) Scheme() string { return "sim" }

var errRefused = &net.OpError{Op: "dial", Net: "sim", Err: os.NewSyscallError("connect", syscall.ECONNREFUSED)}

func (s *simSocket) Dial(address string) (socket.Conn, error) {
	simrt.YieldKind(simrt.KNet)
	n := s.n
	n.Dials[address]++
	if n.DialHook != nil {
		if err := n.DialHook(address); err != nil {
			n.fault(FRefuse)
			return nil, err
		}
	}
	l := n.listeners[address]
	if l == nil || l.closed {
		n.fault(FRefuse)
		return nil, errRefused
	}
	p := n.newPipe(address, l)
	l.backlog = append(l.backlog, p.Ends[1])
	l.aq.WakeAll()
	if n.OnPipe != nil {
		n.OnPipe(p)
	}
	return p.Ends[0], nil
}

func (s *simSocket) Listen(address string) (socket.Listener, error) {
	simrt.YieldKind(simrt.KNet)
	n := s.n
	if l := n.listeners[address]; l != nil && !l.closed {
		return nil, &net.OpError{Op: "listen", Net: "sim", Err: os.NewSyscallError("bind", syscall.EADDRINUSE)}
	}
	l := &Listener{n: n, addr: address, Incarnation: n.incarnation(address)}
	n.listeners[address] = l
	return l, nil
}

func (n *Net) incarnation(addr string) int {
	if n.inc == nil {
		n.inc = map[string]int{}
	}
	n.inc[addr]++
	return n.inc[addr]
}

// Listener is a simulated listener.
type Listener struct {
	n           *Net
	addr        string
	closed      bool
	backlog     []*End
	aq          simrt.WaitQ
	Accepted    []*End
	Incarnation int
	srv         *netpoll.Server
}

type simAddr string

func (a simAddr) Network() string { return "sim" }
func (a simAddr) String() string  { return string(a) }

func (l *Listener) Addr() net.Addr { return simAddr(l.addr) }

var errListenerClosed = &net.OpError{Op: "accept", Net: "sim", Err: net.ErrClosed}

func (l *Listener) accept() (*End, error) {
	simrt.YieldKind(simrt.KNet)
	for {
		if l.closed {
			return nil, errListenerClosed
		}
		if len(l.backlog) > 0 {
			e := l.backlog[0]
			l.backlog = l.backlog[1:]
			l.Accepted = append(l.Accepted, e)
			return e, nil
		}
		if !simrt.Park(&l.aq) {
			return nil, errListenerClosed
		}
	}
}

// Accept waits for and returns the next connection to the listener.
func (l *Listener) Accept() (socket.Conn, error) {
	e, err := l.accept()
	if err != nil {
		return nil, err
	}
	return e, nil
}

// Close closes the listener; connections still in the backlog are reset.
func (l *Listener) Close() error {
	simrt.YieldKind(simrt.KNet)
	if l.closed {
		return nil
	}
	l.closed = true
	for _, e := range l.backlog {
		e.pipe.Cut(KindRST, "listener closed with connection in backlog")
		e.closed = true // never accepted: the kernel resets and releases it
	}
	l.backlog = nil
	l.aq.WakeAll()
	return nil
}

// Kill models the death of the server process: the listener disappears and
// every connection it accepted is reset.
func (l *Listener) Kill() {
	l.n.fault(FKill)
	l.Close()
	for _, e := range l.Accepted {
		e.pipe.Cut(KindRST, "server killed")
	}
}

type netListener struct{ l *Listener }

func (nl netListener) Accept() (net.Conn, error) {
	e, err := nl.l.accept()
	if err != nil {
		return nil, err
	}
	return e, nil
}
func (nl netListener) Close() error   { return nl.l.Close() }
func (nl netListener) Addr() net.Addr { return nl.l.Addr() }

// Serve serves the netpoll.Handler (fallback path of netpoll for generic listeners).
func (l *Listener) Serve(handler netpoll.Handler) error {
	if handler == nil {
		return socket.ErrHandler
	}
	if l.n.Cfg.PollMode == 1 {
		return l.epollServe(handler)
	}
	l.srv = &netpoll.Server{Handler: handler}
	return l.srv.Serve(netListener{l})
}

// ServeData is not used by rpc.
func (l *Listener) ServeData(opened func(net.Conn) error, serve func(req []byte) (res []byte)) error {
	return errors.New("simnet: ServeData not supported")
}

// ServeConn serves the opened func and the serve func like socket.TCPListener.
func (l *Listener) ServeConn(opened func(net.Conn) (socket.Context, error), serve func(socket.Context) error) error {
	if opened == nil {
		return socket.ErrOpened
	} else if serve == nil {
		return socket.ErrServe
	}
	Upgrade := func(conn net.Conn) (netpoll.Context, error) { return opened(conn) }
	Serve := func(context netpoll.Context) error { return serve(context) }
	return l.Serve(netpoll.NewHandler(Upgrade, Serve))
}

// ServeMessages serves the opened func and the serve func like socket.TCPListener
// (messages in shared-pool mode).
func (l *Listener) ServeMessages(opened func(socket.Messages) (socket.Context, error), serve func(socket.Context) error) error {
	if opened == nil {
		return socket.ErrOpened
	} else if serve == nil {
		return socket.ErrServe
	}
	Upgrade := func(conn net.Conn) (netpoll.Context, error) {
		messages := socket.NewMessages(conn, true)
		return opened(messages)
	}
	Serve := func(context netpoll.Context) error { return serve(context) }
	return l.Serve(netpoll.NewHandler(Upgrade, Serve))
}

// epollServe models netpoll's epoll workers (net_unix.go): connections are
// non-blocking, Handler.Serve is re-invoked while the socket is readable, by up
// to PollWorkers concurrent invocations (async shared workers), and the
// connection is closed when Serve returns an error other than EAGAIN.
func (l *Listener) epollServe(handler netpoll.Handler) error {
	for {
		e, err := l.accept()
		if err != nil {
			return err
		}
		c := &epollConn{End: e}
		simrt.GoLib("simnet.epoll.register", func() {
			ctx, err := handler.Upgrade(c)
			if err != nil {
				c.Close()
				return
			}
			e.nonblock = true
			workers := l.n.Cfg.PollWorkers
			if workers < 1 {
				workers = 1
			}
			var closing int32
			inflight := 0
			var idle simrt.WaitQ
			serveConn := func() {
				for {
					err := handler.Serve(ctx)
					if err != nil {
						if err == syscall.EAGAIN {
							return
						}
						if !atomic.CompareAndSwapInt32(&closing, 0, 1) {
							return
						}
						c.Close()
						return
					}
				}
			}
			serveConn() // worker.register calls serveConn once after Upgrade
			for !e.closed {
				// epoll_wait: level-triggered readability
				if !e.waitReadable() {
					return
				}
				if e.closed {
					return
				}
				if inflight >= workers {
					simrt.Park(&idle)
					continue
				}
				inflight++
				if workers == 1 {
					serveConn()
					inflight--
				} else {
					simrt.GoLib("simnet.epoll.worker", func() {
						serveConn()
						inflight--
						idle.WakeAll()
					})
					simrt.Gosched()
				}
			}
		})
	}
}

type epollConn struct{ *End }

// Read maps every error except EAGAIN to EOF, as netpoll's conn does.
func (c *epollConn) Read(b []byte) (int, error) {
	n, err := c.End.Read(b)
	if err != nil && err != syscall.EAGAIN {
		err = io.EOF
	}
	return n, err
}

// ---------------------------------------------------------------------------

// Cut kinds.
const (
	KindFIN = 1
	KindRST = 2
)

type chunk struct {
	data []byte
	at   time.Duration
}

// stream is one direction of a connection.
type stream struct {
	chunks   []chunk
	buffered int   // bytes in chunks
	written  int64 // bytes accepted from the writer (before any cut)
	Log      []byte
	cutAt    int64 // bytes >= cutAt are never delivered (-1 = no cut armed)
	cutKind  int
	ended    int // 0 open, KindFIN or KindRST: after the buffered bytes the reader sees EOF / reset
	broken   bool // writes fail (reader gone or connection cut)
	lastAt   time.Duration
	rq       simrt.WaitQ
	wq       simrt.WaitQ
}

// Pipe is one simulated connection.
type Pipe struct {
	ID       int
	Addr     string
	Ends     [2]*End // 0 = dialer, 1 = acceptor
	n        *Net
	CutBy    string
	CutSeq   uint64
	Listener *Listener
	Opened   time.Duration
}

// End is one endpoint of a Pipe; it implements socket.Conn.
type End struct {
	pipe     *Pipe
	side     int
	in, out  *stream
	closed   bool
	nonblock bool
	ClosedBy string
	ClosedAt time.Duration
	ClosedSeq uint64
	stall    time.Duration // reads are withheld until this simulated time
}

func (n *Net) newPipe(addr string, l *Listener) *Pipe {
	n.nextConn++
	a, b := &stream{cutAt: -1}, &stream{cutAt: -1}
	p := &Pipe{ID: n.nextConn, Addr: addr, n: n, Listener: l, Opened: simrt.Now()}
	p.Ends[0] = &End{pipe: p, side: 0, in: b, out: a}
	p.Ends[1] = &End{pipe: p, side: 1, in: a, out: b}
	n.Pipes = append(n.Pipes, p)
	return p
}

// Dir returns the stream written by side s (0: client->server, 1: server->client).
func (p *Pipe) Dir(s int) *stream { return p.Ends[s].out }

// ArmCut arranges for the connection to be cut when the byte stream written by
// side reaches offset bytes.
func (p *Pipe) ArmCut(side int, offset int64, kind int) {
	s := p.Ends[side].out
	s.cutAt = offset
	s.cutKind = kind
	if s.written >= offset {
		p.Cut(kind, "armed cut already passed")
	}
}

// Cut ends the connection now: both readers see the bytes already written and
// then EOF (FIN) or a reset; writers fail.
func (p *Pipe) Cut(kind int, why string) {
	if p.CutBy != "" {
		return
	}
	p.CutBy = why
	p.CutSeq = simrt.Seq()
	if kind == KindRST {
		p.n.fault(FRst)
	} else {
		p.n.fault(FFin)
	}
	for _, e := range p.Ends {
		if e.out.ended == 0 {
			e.out.ended = kind
		}
		e.out.broken = true
		e.out.rq.WakeAll()
		e.out.wq.WakeAll()
	}
}

// Open reports whether neither side has closed and no cut happened.
func (p *Pipe) Open() bool {
	return p.CutBy == "" && !p.Ends[0].closed && !p.Ends[1].closed
}

func (e *End) Messages() socket.Messages { return socket.NewMessages(e, false) }
func (e *End) Connection() net.Conn      { return e }
func (e *End) LocalAddr() net.Addr       { return simAddr(fmt.Sprintf("%s#%d.%d", e.pipe.Addr, e.pipe.ID, e.side)) }
func (e *End) RemoteAddr() net.Addr      { return simAddr(fmt.Sprintf("%s#%d.%d", e.pipe.Addr, e.pipe.ID, 1-e.side)) }
func (e *End) SetDeadline(t time.Time) error      { return nil }
func (e *End) SetReadDeadline(t time.Time) error  { return nil }
func (e *End) SetWriteDeadline(t time.Time) error { return nil }
func (e *End) Pipe() *Pipe { return e.pipe }

func opErr(op string, err error) error { return &net.OpError{Op: op, Net: "sim", Err: err} }

var (
	errReadClosed  = opErr("read", net.ErrClosed)
	errWriteClosed = opErr("write", net.ErrClosed)
	errReset       = opErr("read", os.NewSyscallError("read", syscall.ECONNRESET))
	errPipe        = opErr("write", os.NewSyscallError("write", syscall.EPIPE))
	errTimedOut    = opErr("read", os.NewSyscallError("read", syscall.ETIMEDOUT))
)

// avail returns how many buffered bytes have arrived.
func (s *stream) avail(now time.Duration) (n int, next time.Duration) {
	for _, c := range s.chunks {
		if c.at > now {
			return n, c.at
		}
		n += len(c.data)
	}
	return n, 0
}

func (e *End) Read(b []byte) (int, error) {
	simrt.YieldKind(simrt.KNet)
	s := e.in
	for {
		if e.closed {
			return 0, errReadClosed
		}
		if len(b) == 0 {
			return 0, nil
		}
		now := simrt.Now()
		if e.stall > now {
			if e.nonblock {
				return 0, syscall.EAGAIN
			}
			simrt.ParkTimeout(&s.rq, e.stall-now)
			continue
		}
		n, next := s.avail(now)
		if n > 0 {
			got := 0
			pieces := 0
			for got < len(b) && len(s.chunks) > 0 && s.chunks[0].at <= now {
				c := &s.chunks[0]
				k := copy(b[got:], c.data)
				got += k
				pieces++
				if k == len(c.data) {
					s.chunks = s.chunks[1:]
				} else {
					c.data = c.data[k:]
				}
				if e.pipe.n.Cfg.OneChunkReads {
					break
				}
			}
			if pieces > 1 {
				e.pipe.n.fault(FCoalesce)
			}
			s.buffered -= got
			s.wq.WakeAll()
			return got, nil
		}
		if next == 0 && s.ended != 0 {
			if s.ended == KindRST {
				if e.pipe.n.Cfg.ResetAsTimeout {
					return 0, errTimedOut
				}
				return 0, errReset
			}
			return 0, io.EOF
		}
		if e.nonblock {
			return 0, syscall.EAGAIN
		}
		if next > 0 {
			simrt.ParkTimeout(&s.rq, next-now)
		} else if !simrt.Park(&s.rq) {
			return 0, errReadClosed
		}
	}
}

// waitReadable blocks until a Read would not return EAGAIN (epoll readability).
func (e *End) waitReadable() bool {
	s := e.in
	for {
		if e.closed {
			return true
		}
		now := simrt.Now()
		if e.stall > now {
			simrt.ParkTimeout(&s.rq, e.stall-now)
			continue
		}
		n, next := s.avail(now)
		if n > 0 || (next == 0 && s.ended != 0) {
			return true
		}
		if next > 0 {
			simrt.ParkTimeout(&s.rq, next-now)
		} else if !simrt.Park(&s.rq) {
			return false
		}
	}
}

func (e *End) Write(b []byte) (int, error) {
	simrt.YieldKind(simrt.KNet)
	s := e.out
	n := e.pipe.n
	if e.closed {
		return 0, errWriteClosed
	}
	if len(b) == 0 {
		return 0, nil
	}
	if s.broken {
		if n.Cfg.SilentPipe {
			return len(b), nil
		}
		n.fault(FEpipe)
		return 0, errPipe
	}
	// back-pressure
	for n.Cfg.Window > 0 && s.buffered >= n.Cfg.Window && !s.broken && !e.closed {
		n.fault(FStall)
		if !simrt.Park(&s.wq) {
			break
		}
	}
	if e.closed {
		return 0, errWriteClosed
	}
	if s.broken {
		if n.Cfg.SilentPipe {
			return len(b), nil
		}
		n.fault(FEpipe)
		return 0, errPipe
	}
	data := b
	cutNow := false
	if s.cutAt >= 0 && s.written+int64(len(data)) >= s.cutAt {
		keep := s.cutAt - s.written
		if keep < 0 {
			keep = 0
		}
		data = data[:keep]
		cutNow = true
	}
	s.written += int64(len(data))
	s.Log = append(s.Log, data...)
	// fragmentation and latency
	now := simrt.Now()
	rest := append([]byte(nil), data...)
	for len(rest) > 0 {
		k := len(rest)
		if n.Cfg.FragPermille > 0 && k > 1 && simrt.Chance(n.Cfg.FragPermille) {
			switch simrt.Choose(3) {
			case 0:
				k = 1 + simrt.Choose(min(k-1, 12))
			case 1:
				k = 1 + simrt.Choose(k-1)
			default:
				k = k - 1 - simrt.Choose(min(k-1, 12))
				if k < 1 {
					k = 1
				}
			}
			n.fault(FFragment)
		}
		at := now
		if n.Cfg.MaxLatency > 0 {
			d := time.Duration(simrt.Choose(int(n.Cfg.MaxLatency/time.Microsecond)+1)) * time.Microsecond
			if d > 0 {
				n.fault(FDelay)
			}
			at = now + d
		}
		if at < s.lastAt {
			at = s.lastAt // a byte stream preserves order
		}
		s.lastAt = at
		s.chunks = append(s.chunks, chunk{data: rest[:k], at: at})
		s.buffered += k
		rest = rest[k:]
	}
	s.rq.WakeAll()
	if !cutNow && n.Cfg.LateWriteErr > 0 && simrt.Chance(n.Cfg.LateWriteErr) {
		n.fault(FWriteErr + "-after-delivery")
		return len(b), errPipe
	}
	if cutNow {
		kind := s.cutKind
		s.cutAt = -1
		e.pipe.Cut(kind, fmt.Sprintf("armed cut of side %d stream at byte %d", e.side, s.written))
		if n.Cfg.SilentPipe {
			return len(b), nil
		}
		return len(data), errPipe
	}
	return len(b), nil
}

// Close closes this end: the peer reads what was written and then EOF; the
// peer's writes fail.
func (e *End) Close() error {
	simrt.YieldKind(simrt.KNet)
	if e.closed {
		return errWriteClosed
	}
	e.closed = true
	e.ClosedBy = simrt.Self()
	e.ClosedAt = simrt.Now()
	e.ClosedSeq = simrt.Seq()
	if e.out.ended == 0 {
		e.out.ended = KindFIN
	}
	e.in.broken = true
	e.in.rq.WakeAll()
	e.in.wq.WakeAll()
	e.out.rq.WakeAll()
	e.out.wq.WakeAll()
	return nil
}

// Closed reports whether Close was called on this end.
func (e *End) Closed() bool { return e.closed }

func min(a, b int) int {
	if a < b {
		return a
	}
	return b
}
