package harness

import (
	"errors"
	"context"
	"fmt"
	"os"
	"time"

	"github.com/hslam/rpc"

	"verif/sim/simrt"
	"verif/sim/simsync"
)

const (
	asyncGrace = 10 * time.Minute // simulated: how long the harness waits for an async completion
	joinGrace  = 25 * time.Minute
	quietGrace = 5 * time.Second
)

// NewWorld prepares the world of a plan.
func NewWorld(p *Plan) *World {
	w := &World{P: p, Probes: map[string]int{}, Arrivals: map[int][]uint64{}, byID: map[uint64]*CallRec{}, opIdx: map[int]int{}, PuppetFlags: map[uint64]uint32{}}
	w.Net = NewNet(p.Net)
	currentNet = w.Net
	w.Servers = make([]*rpc.Server, len(p.Servers))
	w.ServerUp = make([]bool, len(p.Servers))
	w.listenGen = make([]*listenState, len(p.Servers))
	w.Conns = make([]*rpc.Conn, len(p.Conns))
	w.ConnPipe = make([]*Pipe, len(p.Conns))
	for k, sp := range p.Streams {
		w.Streams = append(w.Streams, &StreamRec{Plan: sp, Idx: k})
	}
	return w
}

// RunConnWorld is the main goroutine of every connection-level scenario.
func (w *World) RunConnWorld() {
	p := w.P
	for i := range p.Servers {
		if i == 0 && p.Params["puppet_server"] == 1 {
			simrt.Go("harness.puppet.listen", func() { w.runPuppetServer(addrOf(0), p.Replies, p.Params["close_after"]) })
			for n := 0; n < 10000 && w.Net.listeners[addrOf(0)] == nil; n++ {
				simrt.Gosched()
			}
			continue
		}
		w.startServer(i)
	}
	// faults armed at connect time
	w.Net.OnPipe = func(pipe *Pipe) {
		for _, f := range p.Faults {
			if f.Kind == "cut" && f.AtOp == 0 && f.Conn == len(w.Net.Pipes)-1 {
				kind := KindFIN
				if f.RST {
					kind = KindRST
				}
				pipe.ArmCut(f.Side, f.Offset, kind)
			}
		}
	}
	for i, cc := range p.Conns {
		var conn *rpc.Conn
		var err error
		if p.Plain {
			conn, err = rpc.Dial("sim", addrOf(cc.Server), p.Codec)
		} else {
			conn, err = rpc.DialWithOptions(addrOf(cc.Server), w.options(cc.BufferSize))
		}
		if err != nil {
			w.Notes = append(w.Notes, fmt.Sprintf("dial conn %d: %v", i, err))
			continue
		}
		if cc.OptOrder == 1 {
			conn.SetDirectIO(true)
		} else if cc.OptOrder == 2 {
			conn.SetDirectIO(false)
		}
		if cc.Pipelining {
			conn.SetPipelining(true)
		}
		if cc.DirectIO || cc.DirectSet == 1 {
			conn.SetDirectIO(true)
		} else if cc.DirectSet == 2 || cc.OptOrder != 0 {
			conn.SetDirectIO(false)
		}
		if cc.NoCopy {
			conn.SetNoCopy(true)
		}
		if cc.SetBuf != 0 {
			conn.SetBufferSize(cc.SetBuf)
		}
		w.Conns[i] = conn
		w.ConnPipe[i] = w.Net.Pipes[len(w.Net.Pipes)-1]
	}
	w.active = len(p.Clients) + len(p.Puppets)
	for pi := range p.Puppets {
		pi := pi
		simrt.Go(fmt.Sprintf("harness.puppet.%d", pi), func() {
			defer func() {
				w.active--
				w.joinQ.WakeAll()
			}()
			w.runPuppetClient(100+pi, p.Puppets[pi])
		})
	}
	for ci := range p.Clients {
		ci := ci
		simrt.Go(fmt.Sprintf("harness.client.%d", ci), func() {
			defer func() {
				w.active--
				w.joinQ.WakeAll()
			}()
			w.runClient(ci)
		})
	}
	deadline := simrt.Now() + joinGrace
	for w.active > 0 {
		left := deadline - simrt.Now()
		if left <= 0 {
			w.Probe("join-timeout")
			break
		}
		simrt.ParkTimeout(&w.joinQ, left)
	}
	if p.Params["settle"] > 0 {
		simrt.Sleep(time.Second) // let in-flight messages arrive before the world is torn down
	}
	w.teardown()
}

func (w *World) teardown() {
	w.TearingDown = true
	w.watchTeardown()
	w.TeardownSeq = simrt.Seq()
	if os.Getenv("VERIF_DEBUG") == "3" {
		fmt.Fprintln(os.Stderr, "---- stacks at teardown ----")
		fmt.Fprintln(os.Stderr, simrt.AllStacks())
	}
	// release NoAnswer handlers, close connections and servers, let things settle
	w.collectSignals()
	w.shutdown = true
	w.shutdownQ.WakeAll()
	for _, c := range w.Conns {
		if c != nil {
			c.Close()
		}
	}
	// let the peers see the end of their connections before the servers are shut down
	// (server shutdown with live connections is a fault of its own: closeserver/killserver)
	simrt.Sleep(2*w.P.Net.MaxLatency + time.Second)
	for i, s := range w.Servers {
		if s != nil && w.ServerUp[i] {
			s.Close()
		}
	}
	if w.PuppetLis != nil {
		w.PuppetLis.Kill()
	}
	simrt.Sleep(quietGrace)
	w.collectSignals()
	w.SimEnd = simrt.Now()
	w.LiveAtEnd = simrt.Live()
	if os.Getenv("VERIF_DEBUG") == "2" && len(w.LiveAtEnd) > 0 {
		fmt.Fprintln(os.Stderr, simrt.AllStacks())
	}
	for _, c := range w.Calls {
		if c.errObj != nil {
			c.ErrAtEnd = c.errObj.Error()
		} else if c.call != nil && c.call.Error != nil && c.Form != "call" && c.Form != "ctx" && c.Form != "ping" {
			c.ErrAtEnd = c.call.Error.Error()
		}
	}
}

// collectSignals drains every private Done channel, counting deliveries.
func (w *World) collectSignals() {
	for _, c := range w.Calls {
		if c.done == nil {
			continue
		}
		for {
			select {
			case got := <-c.done:
				w.noteSignal(c, got)
				continue
			default:
			}
			break
		}
	}
}

func (w *World) noteSignal(c *CallRec, got *rpc.Call) {
	c.Signals++
	if got != c.call {
		c.SignalOther = true
	}
	if c.Signals == 1 {
		c.Return = simrt.Seq()
		c.ReturnT = simrt.Now()
		c.Returned = true
		c.errObj = got.Error
		if got.Error != nil {
			c.Err = got.Error.Error()
		}
		c.ErrKind = errKind(got.Error)
		w.checkReply(c)
	}
}

func (w *World) fireFault(f *Fault) {
	if w.FaultSeq == 0 {
		w.FaultSeq = simrt.Seq()
	}
	switch f.Kind {
	case "cut":
		if p := w.ConnPipe[f.Conn]; p != nil {
			kind := KindFIN
			if f.RST {
				kind = KindRST
			}
			p.Cut(kind, "fault at op")
		}
	case "closeconn":
		if c := w.Conns[f.Conn]; c != nil {
			w.Net.fault(FLocalClose)
			c.Close()
		}
	case "killserver":
		if l := w.Net.listeners[addrOf(f.Server)]; l != nil {
			l.Kill()
		}
	case "closeserver":
		if s := w.Servers[f.Server]; s != nil {
			w.Net.fault(FLocalClose)
			s.Close()
		}
	case "stall":
		if p := w.ConnPipe[f.Conn]; p != nil {
			p.Ends[f.Side].stall = simrt.Now() + time.Duration(f.Dur)*time.Microsecond
			w.Net.fault(FStall)
		}
	case "closestream":
		if f.Stream < len(w.Streams) {
			if s := w.Streams[f.Stream]; s.stream != nil {
				w.Net.fault(FLocalClose)
				err := s.stream.Close()
				s.Closed = true
				if err != nil {
					s.CloseErr = err.Error()
				}
			}
		}
	}
}

// awaitStream blocks until stream op.Stream has reached a progress point (Shape 0: opened on the
// client, 1: the client has read N messages, 2: the handler has read N messages, 3: the handler has
// written N messages, 4: the handler has started), or 3 s of simulated time have passed. What follows
// the op runs at the very instant the other party moves on to its next stream operation.
func (w *World) awaitStream(op *Op) {
	if op.Stream >= len(w.Streams) {
		return
	}
	rec := w.Streams[op.Stream]
	deadline := simrt.Now() + 3*time.Second
	for {
		ok := false
		switch op.Shape {
		case 0:
			ok = rec.stream != nil
		case 1:
			ok = len(rec.CGot) >= op.N
		case 2:
			ok = len(rec.SGot) >= op.N
		case 3:
			ok = len(rec.SSent) >= op.N
		case 4:
			ok = rec.HandlerStart != 0
		}
		if ok {
			w.Probe("stream-progress-point-reached")
			return
		}
		left := deadline - simrt.Now()
		if left <= 0 || w.Closing {
			return
		}
		simrt.ParkTimeout(&w.streamEvQ, left)
	}
}

func (w *World) opDone() {
	w.opsDone++
	for i := range w.P.Faults {
		f := &w.P.Faults[i]
		if f.AtOp > 0 && f.AtOp == w.opsDone {
			w.fireFault(f)
		}
	}
}

func (w *World) newCall(ci int, connIdx int, op *Op, form string) *CallRec {
	// ids are a function of (client, op index): stable across schedules and configurations
	w.opIdx[ci]++
	c := &CallRec{ID: uint64(ci+1)<<16 | uint64(w.opIdx[ci]), Client: ci, Conn: connIdx, Form: form, Flags: op.Flags, Arg: op.Arg, Size: op.Size, Rep: op.Rep, Bad: op.Bad, Timeout: op.Timeout}
	c.Method = w.methodName(op.Shape)
	if op.Bad == "method" {
		c.Method = "Svc.NoSuchMethod"
	}
	w.Calls = append(w.Calls, c)
	w.byID[c.ID] = c
	return c
}

const sentinelServer = 0xEEEEEEE

// argsAndReply builds the argument and (sentinel-filled) reply objects of a call.
func (w *World) argsAndReply(c *CallRec) (args, reply interface{}) {
	m := &Msg{ID: c.ID, Flags: c.Flags, N: uint32(c.Rep), Arg: c.Arg, Pad: MakePad(ReqKey(c.ID), c.Size)}
	if c.Bad == "encode" {
		m.ID = badMarshalID
	}
	c.reply = &Msg{ID: ^c.ID, Server: sentinelServer}
	if c.Flags&FlEmpty != 0 {
		c.reply = &Msg{} // the reply will be the zero message: start from a zero object, as users do
	}
	if c.Bad == "reply" {
		// a reply object the (well-formed) reply cannot be decoded into: the call must fail
		switch w.P.Codec {
		case "pb":
			return (*PBMsg)(m), &noDecodePB{}
		case "json":
			return m, &[]int{}
		case "code":
			return m, &noDecodeCode{}
		}
	}
	switch w.P.Codec {
	case "pb":
		if c.Bad == "args" {
			// a body the server cannot decode into its argument type
			return &rawPB{[]byte{0xff, 0xff, 0xff, 0xff, 0xff, 0xff, 0xff, 0xff, 0xff, 0xff, 0xff}}, (*PBMsg)(c.reply)
		}
		return (*PBMsg)(m), (*PBMsg)(c.reply)
	case "bytes":
		b, _ := m.Marshal(nil)
		if c.Bad == "encode" || c.Bad == "args" {
			b = []byte{0xff}
		}
		c.replyB = new([]byte)
		*c.replyB = []byte("sentinel")
		return &b, c.replyB
	case "json":
		if c.Bad == "args" {
			return &[]int{1, 2, 3}, c.reply // a JSON array cannot be decoded into Msg
		}
		if c.Bad == "encode" {
			return make(chan int), c.reply // JSON cannot encode a channel
		}
		return m, c.reply
	}
	if c.Bad == "args" {
		return &rawCode{[]byte{0xff, 0xff, 0xff, 0xff, 0xff, 0xff, 0xff, 0xff, 0xff, 0xff, 0xff}}, c.reply
	}
	return m, c.reply
}

// noDecodePB / noDecodeCode are reply objects whose decoding always fails.
type noDecodePB struct{}

var errNoDecode = errors.New("msg: this reply type cannot be decoded")

func (*noDecodePB) Size() int                         { return 0 }
func (*noDecodePB) Marshal() ([]byte, error)          { return nil, nil }
func (*noDecodePB) MarshalTo(buf []byte) (int, error) { return 0, nil }
func (*noDecodePB) Unmarshal(data []byte) error       { return errNoDecode }

type noDecodeCode struct{}

func (*noDecodeCode) Marshal(buf []byte) ([]byte, error)   { return nil, nil }
func (*noDecodeCode) Unmarshal(buf []byte) (uint64, error) { return 0, errNoDecode }

// rawPB / rawCode send arbitrary bytes as the request body.
type rawPB struct{ b []byte }

func (r *rawPB) Size() int                        { return len(r.b) }
func (r *rawPB) Marshal() ([]byte, error)          { return r.b, nil }
func (r *rawPB) MarshalTo(buf []byte) (int, error) { return copy(buf, r.b), nil }
func (r *rawPB) Unmarshal(data []byte) error       { return nil }

type rawCode struct{ b []byte }

func (r *rawCode) Marshal(buf []byte) ([]byte, error) { return r.b, nil }
func (r *rawCode) Unmarshal(buf []byte) (uint64, error) { return 0, nil }

// checkReply evaluates the C01 oracle for a completed call: a call that
// completed without error carries exactly F(own arguments).
func (w *World) checkReply(c *CallRec) {
	if c.Form == "ping" {
		c.ReplyOK = c.Err == ""
		return
	}
	if c.Bad == "reply" {
		if c.Err == "" {
			c.ReplyWhy = "the reply could not be decoded into the reply object, yet the call completed without error"
		}
		return
	}
	var got *Msg
	if w.P.Codec == "bytes" {
		if c.Err != "" {
			c.ReplyTouched = string(*c.replyB) != "sentinel"
			return
		}
		if c.Flags&FlEmpty != 0 {
			if len(*c.replyB) == 0 {
				c.ReplyOK = true
			} else {
				c.ReplyWhy = fmt.Sprintf("the handler returned the empty message, the reply has %d bytes", len(*c.replyB))
			}
			return
		}
		var m Msg
		if _, err := m.get(*c.replyB); err != nil {
			c.ReplyWhy = "reply bytes do not decode: " + err.Error()
			return
		}
		got = &m
		w.retain(*c.replyB, "reply-bytes", c.ID)
	} else {
		got = c.reply
		if c.Err != "" {
			if c.Flags&FlEmpty != 0 {
				c.ReplyTouched = !got.isZero()
			} else {
				c.ReplyTouched = got.ID != ^c.ID || got.Server != sentinelServer || got.Pad != nil || got.N != 0 || got.Flags != 0
			}
			return
		}
		w.retain(got.Pad, "reply-pad", c.ID)
	}
	if c.Flags&FlEmpty != 0 {
		if got.isZero() {
			c.ReplyOK = true
		} else {
			c.ReplyWhy = fmt.Sprintf("the handler returned the zero message, the reply is {id %d server %d flags %#x pad %d bytes}", got.ID, got.Server, got.Flags, len(got.Pad))
		}
		return
	}
	switch {
	case got.ID != c.ID:
		c.ReplyWhy = fmt.Sprintf("reply id %d for call %d", got.ID, c.ID)
	case len(got.Pad) != c.Rep:
		c.ReplyWhy = fmt.Sprintf("reply payload length %d, want %d", len(got.Pad), c.Rep)
	case !PadOK(got.Pad, RepKey(c.ID)):
		c.ReplyWhy = "reply payload differs from the handler's output"
	case !(w.TS != nil && w.TS.C != nil) && int(got.Server)/1000 != w.wantServer(c): // (a Client chooses the server itself)
		c.ReplyWhy = fmt.Sprintf("reply from server %d, call was addressed to server %d", got.Server/1000, w.wantServer(c))
	default:
		c.ReplyOK = true
	}
	if c.ctxBuf != nil && len(got.Pad) > 0 {
		c.InCtxBuf = sameBacking(got.Pad, c.ctxBuf)
	}
}

func sameBacking(a, b []byte) bool {
	if cap(a) == 0 || cap(b) == 0 {
		return false
	}
	b = b[:cap(b)]
	pa := &a[0]
	for i := range b {
		if &b[i] == pa {
			return true
		}
	}
	return false
}

func (w *World) finishBlocking(c *CallRec, err error) {
	c.Signals = 1
	c.Return = simrt.Seq()
	c.ReturnT = simrt.Now()
	c.Returned = true
	c.errObj = err
	if err != nil {
		c.Err = err.Error()
	}
	c.ErrKind = errKind(err)
	w.checkReply(c)
}

// waitAsync waits (in simulated time) for the first signal of an async call.
func (w *World) waitAsync(c *CallRec) {
	if c.Signals > 0 {
		return
	}
	t := time.NewTimer(asyncGrace)
	select {
	case got := <-c.done:
		simrt.YieldKind(simrt.KHarness)
		t.Stop()
		w.noteSignal(c, got)
	case <-t.C:
		simrt.YieldKind(simrt.KHarness)
		w.Probe("async-never-signalled")
	}
}

func (w *World) runClient(ci int) {
	cp := &w.P.Clients[ci]
	conn := w.Conns[cp.Conn]
	if conn == nil {
		return
	}
	var outstanding []*CallRec
	var shared chan *rpc.Call
	var sharedCalls []*CallRec
	for oi := range cp.Ops {
		if w.Closing {
			break
		}
		op := &cp.Ops[oi]
		switch op.Kind {
		case "call":
			c := w.newCall(ci, cp.Conn, op, "call")
			args, reply := w.argsAndReply(c)
			c.NumCallsBefore = int(conn.NumCalls())
			c.Alone = w.clientsOnConn(cp.Conn) == 1 && len(outstanding) == 0
			c.Invoke, c.InvokeT = simrt.Seq(), simrt.Now()
			err := conn.Call(c.Method, args, reply)
			w.finishBlocking(c, err)
			c.NumCallsAfter = int(conn.NumCalls())
		case "go":
			c := w.newCall(ci, cp.Conn, op, "go")
			args, reply := w.argsAndReply(c)
			c.done = make(chan *rpc.Call, 4)
			c.Invoke, c.InvokeT = simrt.Seq(), simrt.Now()
			if op.NilDone {
				// "If done is nil, Go will allocate a new channel": completion is awaited on that one
				c.call = conn.Go(c.Method, args, reply, nil)
				c.done = c.call.Done
			} else {
				c.call = conn.Go(c.Method, args, reply, c.done)
			}
			outstanding = append(outstanding, c)
		case "gos", "rts":
			if shared == nil {
				n := 0
				for _, o := range cp.Ops {
					if o.Kind == "gos" || o.Kind == "rts" {
						n++
					}
				}
				shared = make(chan *rpc.Call, 2*n+4)
			}
			c := w.newCall(ci, cp.Conn, op, "gos")
			args, reply := w.argsAndReply(c)
			c.Invoke, c.InvokeT = simrt.Seq(), simrt.Now()
			if op.Kind == "rts" {
				// RoundTrip with the caller's own Call on the same shared channel
				c.call = &rpc.Call{ServiceMethod: c.Method, Args: args, Reply: reply, Done: shared}
				conn.RoundTrip(c.call)
			} else {
				c.call = conn.Go(c.Method, args, reply, shared)
			}
			sharedCalls = append(sharedCalls, c)
		case "waits":
			pendingN := 0
			for _, c := range sharedCalls {
				if !c.Returned {
					pendingN++
				}
			}
			for i := 0; i < pendingN; i++ {
				t := time.NewTimer(asyncGrace)
				var got *rpc.Call
				select {
				case got = <-shared:
					simrt.YieldKind(simrt.KHarness)
					t.Stop()
				case <-t.C:
					simrt.YieldKind(simrt.KHarness)
					w.Probe("async-never-signalled")
				}
				if got == nil {
					break
				}
				for _, c := range sharedCalls {
					if c.call == got {
						w.noteSignal(c, got)
						w.Arrivals[ci] = append(w.Arrivals[ci], c.ID)
					}
				}
			}
		case "rt":
			c := w.newCall(ci, cp.Conn, op, "rt")
			args, reply := w.argsAndReply(c)
			c.done = make(chan *rpc.Call, 4)
			call := &rpc.Call{ServiceMethod: c.Method, Args: args, Reply: reply, Done: c.done}
			c.call = call
			c.Invoke, c.InvokeT = simrt.Seq(), simrt.Now()
			conn.RoundTrip(call)
			outstanding = append(outstanding, c)
		case "ctx":
			c := w.newCall(ci, cp.Conn, op, "ctx")
			args, reply := w.argsAndReply(c)
			ctx := context.Background()
			if op.CtxBuf >= 0 && op.CtxBuf != 0 {
				c.ctxBufCap = op.CtxBuf
				c.ctxBuf = make([]byte, op.CtxBuf)
				for i := range c.ctxBuf {
					c.ctxBuf[i] = 0xA5
				}
				ctx = context.WithValue(ctx, rpc.BufferContextKey, c.ctxBuf[:0])
			}
			var cancel context.CancelFunc
			if op.Timeout > 0 {
				ctx, cancel = context.WithTimeout(ctx, time.Duration(op.Timeout)*time.Microsecond)
			} else if op.Timeout < 0 {
				ctx, cancel = context.WithCancel(ctx)
				cancel() // already cancelled
			}
			c.Invoke, c.InvokeT = simrt.Seq(), simrt.Now()
			err := conn.CallWithContext(ctx, c.Method, args, reply)
			w.finishBlocking(c, err)
			if cancel != nil {
				cancel()
			}
		case "ping":
			c := w.newCall(ci, cp.Conn, op, "ping")
			c.Method = ""
			c.Invoke, c.InvokeT = simrt.Seq(), simrt.Now()
			err := conn.Ping()
			w.finishBlocking(c, err)
		case "sleep":
			simrt.Sleep(time.Duration(op.N) * time.Microsecond)
		case "spin":
			for i := 0; i < op.N; i++ {
				simrt.Gosched()
			}
		case "await":
			w.awaitStream(op)
		case "wait":
			for _, c := range outstanding {
				w.waitAsync(c)
			}
			outstanding = outstanding[:0]
		case "fault":
			if op.Fault != nil {
				w.fireFault(op.Fault)
			}
		case "close":
			w.Net.fault(FLocalClose)
			conn.Close()
		case "sopen", "swrite", "sread", "sclose", "safter":
			w.streamOp(ci, conn, op)
		}
		w.opDone()
	}
	for _, c := range outstanding {
		w.waitAsync(c)
	}
}

func (w *World) streamMethod(k int) string {
	if w.P.Codec == "pb" {
		return fmt.Sprintf("St%d.PRun", k)
	}
	return fmt.Sprintf("St%d.Run", k)
}

func (w *World) streamOp(ci int, conn *rpc.Conn, op *Op) {
	rec := w.Streams[op.Stream]
	switch op.Kind {
	case "sopen":
		rec.CallBlocked = "open"
		st, err := conn.NewStream(w.streamMethod(op.Stream))
		rec.CallBlocked = ""
		if err != nil {
			rec.OpenErr = err.Error()
			return
		}
		rec.Opened = true
		rec.stream = st
		w.streamEvQ.WakeAll()
	case "swrite":
		if rec.stream == nil {
			return
		}
		if op.Bad == "encode" {
			// a message the codec cannot encode: only this write may be affected
			var arg interface{} = &Msg{ID: badMarshalID}
			switch w.P.Codec {
			case "pb":
				arg = &PBMsg{ID: badMarshalID}
			case "json":
				arg = make(chan int)
			}
			rec.stream.WriteMessage(arg)
			w.Probe("unencodable-stream-message")
			return
		}
		for i := 0; i < op.N; i++ {
			n := len(rec.CSent)
			id := uint64(op.Stream)<<32 | uint64(n+1)
			sz := 8
			if n < len(rec.Plan.Sizes) {
				sz = rec.Plan.Sizes[n]
			}
			m := &Msg{ID: id, Server: uint32(op.Stream), Pad: MakePad(id, sz)}
			if e := rec.Plan.Empty; e > 0 && (n+1)%e == 0 {
				m, id = &Msg{}, 0
			}
			var arg interface{} = m
			if w.P.Codec == "pb" {
				arg = (*PBMsg)(m)
			}
			if err := rec.stream.WriteMessage(arg); err != nil {
				rec.ClientWriteErr = err.Error()
				return
			}
			rec.CSent = append(rec.CSent, id)
		}
	case "sread":
		if rec.stream == nil {
			return
		}
		for i := 0; i < op.N; i++ {
			var m Msg
			var arg interface{} = &m
			if w.P.Codec == "pb" {
				arg = (*PBMsg)(&m)
			}
			rec.Readers++
			rec.ClientBlocked = true
			rec.reads++
			err := rec.stream.ReadMessage(readBuf(rec.Plan.RBuf, rec.reads), arg)
			rec.Readers--
			rec.ClientBlocked = rec.Readers > 0
			if err != nil {
				rec.ClientReadErr = err.Error()
				rec.ReadErrAtTeardown = w.TearingDown
				return
			}
			if int(m.Server) != op.Stream && !m.isZero() {
				rec.Foreign++
			}
			if !PadOK(m.Pad, m.ID) {
				rec.BadPayload++
			}
			w.retain(m.Pad, "stream-msg", m.ID)
			rec.CGot = append(rec.CGot, m.ID)
			w.streamEvQ.WakeAll()
		}
	case "safter":
		if rec.stream == nil || rec.ClientReadErr == "" {
			return
		}
		// "later" calls: let the connection's reader finish tearing the stream down first (while
		// it is still between failing the pending calls and stopping the streams, a read may
		// return the connection's error and a write is silently dropped)
		simrt.Sleep(time.Millisecond)
		var m Msg
		var arg interface{} = &m
		out := &Msg{ID: 1, Pad: MakePad(1, 4)}
		var oarg interface{} = out
		if w.P.Codec == "pb" {
			arg = (*PBMsg)(&m)
			oarg = (*PBMsg)(out)
		}
		rec.ClientBlocked = true
		err := rec.stream.ReadMessage(nil, arg)
		rec.ClientBlocked = false
		rec.AfterRead = errKind(err)
		if err == nil {
			rec.AfterRead = "nil"
		}
		err = rec.stream.WriteMessage(oarg)
		rec.AfterWrite = errKind(err)
		if err == nil {
			rec.AfterWrite = "nil"
		}
	case "sclose":
		if rec.stream == nil {
			return
		}
		rec.CallBlocked = "close"
		err := rec.stream.Close()
		rec.CallBlocked = ""
		rec.Closed = true
		if err != nil {
			rec.CloseErr = err.Error()
		}
	}
}

var _ = simsync.ResetPools

func (w *World) clientsOnConn(conn int) int {
	n := 0
	for _, c := range w.P.Clients {
		if c.Conn == conn {
			n++
		}
	}
	return n
}

func (w *World) wantServer(c *CallRec) int {
	if c.Conn < 0 {
		return c.Addr
	}
	return w.P.Conns[c.Conn].Server
}
