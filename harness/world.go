package harness

import (
	"context"
	"crypto/tls"
	"errors"
	"fmt"
	"sort"
	"time"

	"github.com/hslam/rpc"
	"github.com/hslam/socket"

	"verif/sim/simrt"
)

// ---------------------------------------------------------------------------
// Plan: everything that is decided before the run starts (JSON-serialisable,
// part of the replay file). Everything decided during the run comes from the
// choice stream.

type SimCfg struct {
	Strategy     int    `json:"strategy"`
	Stay         int    `json:"stay"`      // ‰
	PoolMiss     int    `json:"poolmiss"`  // ‰
	PCTDepth     int    `json:"pct,omitempty"`
	EntryMask    uint64 `json:"entry,omitempty"`
	Starve       string `json:"starve,omitempty"`
	MaxSteps     int    `json:"maxsteps"`
	MaxSimSec    int    `json:"maxsim"`
}

type ServerCfg struct {
	Poll       bool `json:"poll,omitempty"`
	Pipelining bool `json:"pipe,omitempty"`
	DirectIO   bool `json:"direct,omitempty"`
	BufferSize int  `json:"buf,omitempty"`
	Shared     bool `json:"shared,omitempty"`
	NoCopy     bool `json:"nocopy,omitempty"`
}

type ConnCfg struct {
	Server     int  `json:"server"`
	Pipelining bool `json:"pipe,omitempty"`
	DirectIO   bool `json:"direct,omitempty"`
	NoCopy     bool `json:"nocopy,omitempty"`
	DirectSet  int  `json:"dset,omitempty"`   // 0: SetDirectIO not called, 1: SetDirectIO(true), 2: SetDirectIO(false) (unbuffered writes)
	BufferSize int  `json:"buf,omitempty"`    // Options.ClientBufferSize
	SetBuf     int  `json:"setbuf,omitempty"` // Conn.SetBufferSize after dial (0 = not called)
	// OptOrder: order in which the client options are applied after the dial (the outcome must not
	// depend on it). 0: pipelining, then direct I/O; 1: SetDirectIO(true) first, then pipelining, then
	// the final direct-I/O setting; 2: SetDirectIO(false) first, then pipelining, then the final setting.
	OptOrder int `json:"oo,omitempty"`
}

// Op is one step of a client goroutine.
type Op struct {
	Kind    string `json:"k"` // call go rt ctx ping sleep wait sopen swrite sread sclose close fault
	Shape   int    `json:"sh,omitempty"`
	Size    int    `json:"sz,omitempty"`
	Rep     int    `json:"rep,omitempty"`
	Flags   uint32 `json:"fl,omitempty"`
	Arg     uint32 `json:"arg,omitempty"`
	Timeout int    `json:"to,omitempty"`  // µs; ctx ops
	CtxBuf  int    `json:"cb,omitempty"`  // capacity of the context buffer (-1 none)
	Stream  int    `json:"st,omitempty"`
	Addr    int    `json:"addr,omitempty"` // Transport scenarios: target server
	List    int    `json:"list,omitempty"` // Client scenarios: index into Plan.Lists
	N       int    `json:"n,omitempty"`
	Bad     string `json:"bad,omitempty"` // "method" unknown method, "args" undecodable args, "encode" unencodable request
	NilDone bool   `json:"nd,omitempty"`  // go ops: pass a nil done channel (the library allocates one)
	Fault   *Fault `json:"fault,omitempty"`
}

type ClientPlan struct {
	Conn int  `json:"conn"`
	Ops  []Op `json:"ops"`
}

// Fault is a scheduled fault.
type Fault struct {
	Kind   string `json:"kind"` // cut closeconn killserver closeserver restart stall closestream
	Conn   int    `json:"conn,omitempty"`
	Server int    `json:"server,omitempty"`
	Side   int    `json:"side,omitempty"`
	Offset int64  `json:"off,omitempty"`
	RST    bool   `json:"rst,omitempty"`
	AtOp   int    `json:"at,omitempty"` // fire when this many client ops have completed (0 = armed at connect)
	Dur    int    `json:"dur,omitempty"`
	Stream int    `json:"stream,omitempty"`
}

// StreamPlan scripts one stream.
type StreamPlan struct {
	Conn    int   `json:"conn"`
	Push    int   `json:"push"`            // messages the server writes immediately after open
	Echo    bool  `json:"echo,omitempty"`  // server echoes every client message
	Sizes   []int `json:"sizes,omitempty"` // sizes of client messages
	PSizes  []int `json:"psizes,omitempty"`
	BadPush bool  `json:"badpush,omitempty"` // the handler first tries to push a message the codec cannot encode
	Empty   int   `json:"empty,omitempty"` // every Empty-th message in each direction is the zero message (0 bytes under pb)
	RBuf    int   `json:"rbuf,omitempty"` // capacity of the buffer handed to ReadMessage on both ends (0: nil)
	Readers2 bool `json:"r2,omitempty"` // a second goroutine reads on each end (C10: every blocked reader is released)
}

type Plan struct {
	Scenario string         `json:"scenario"`
	Sim      SimCfg         `json:"sim"`
	Net      NetConfig      `json:"net"`
	Codec    string         `json:"codec"`
	Header   string         `json:"header"`
	ByName   bool           `json:"byname,omitempty"`
	Mixed    bool           `json:"mixed,omitempty"` // with ByName: disagreeing constructor functions are set as well (the registered names must win on both ends)
	TLS      bool           `json:"tls,omitempty"`   // Options carry a TLS configuration (observed at the socket constructor; TLS itself is not simulated)
	Plain    bool           `json:"plain,omitempty"` // Listen(network,address,codec) / Dial(network,address,codec) instead of Options
	Servers  []ServerCfg    `json:"servers"`
	Conns    []ConnCfg      `json:"conns"`
	Clients  []ClientPlan   `json:"clients"`
	Faults   []Fault        `json:"faults,omitempty"`
	Streams  []StreamPlan   `json:"streams,omitempty"`
	Params   map[string]int `json:"params,omitempty"`
	Targets  []TargetPlan   `json:"targets,omitempty"` // Client scenarios
	Puppets  [][]PuppetOp   `json:"puppets,omitempty"` // C08: adversarial client scripts
	Replies  []PuppetReply  `json:"replies,omitempty"` // C08: adversarial server script
	Lists    [][]int        `json:"lists,omitempty"`   // Client scenarios: target lists (index into Targets, -1 = empty string)
}

// ---------------------------------------------------------------------------
// Records

type CallRec struct {
	ID       uint64
	Client   int
	Conn     int
	Form     string
	Method   string
	Bad      string
	Flags    uint32
	Arg      uint32
	Size     int
	Rep      int
	Timeout  int
	Invoke   uint64
	Return   uint64 // 0 = never returned / never signalled
	Returned bool
	Err      string
	ErrKind  string // "", shutdown, timeout, canceled, deadline, dial, other
	ErrAtEnd string
	Signals  int
	SignalOther bool // Done delivered a different *Call
	ReplyOK  bool
	ReplyWhy string
	ReplyTouched bool // reply object differs from its sentinel although the call failed
	CtxDoneSeq uint64
	InvokeT, ReturnT time.Duration
	ConnLostSeen bool
	call     *rpc.Call
	done     chan *rpc.Call
	reply    *Msg
	replyB   *[]byte
	ctxBuf   []byte
	ctxBufCap int
	InCtxBuf bool
	errObj   error
	wireErr  string
	NumCallsBefore, NumCallsAfter int
	Addr  int  // Transport/Client scenarios: requested server
	DownAtInvoke bool
	Alone bool // no other call of any client was outstanding on the connection around this call
}

type ExecRec struct {
	Server int
	ID     uint64
	Shape  string
	Start  uint64
	End    uint64
	ArgOK  bool
	ArgLen int
	G      string
	Stream bool
}

type Violation struct {
	Oracle string `json:"oracle"`
	Sig    string `json:"sig"`
	Detail string `json:"detail"`
}

type retained struct {
	what   string
	id     uint64
	b      []byte
	digest uint64
}

// StreamRec records one stream end to end.
type StreamRec struct {
	Plan       StreamPlan
	Idx        int
	OpenErr    string
	Opened     bool
	CSent      []uint64 // message ids written by the client (in order, only successful writes)
	SGot       []uint64 // ids read by the server handler
	SSent      []uint64 // ids written by the server
	CGot       []uint64 // ids read by the client
	BadPayload int
	Foreign    int // messages carrying another stream's id
	HandlerStart, HandlerEnd uint64
	HandlerErr string
	ClientReadErr, ClientWriteErr string
	ClientBlocked bool
	Readers       int // client-side ReadMessage calls in progress
	helperDone    bool
	reads         int
	CallBlocked string // "open" / "close" while Conn.NewStream / Stream.Close has not returned
	CloseErr string
	Closed bool
	AfterRead, AfterWrite string
	ReadErrAtTeardown bool
	stream rpc.Stream
}

// World is the state of one run.
type World struct {
	P        *Plan
	Net      *Net
	Servers  []*rpc.Server
	ServerUp []bool
	Conns    []*rpc.Conn
	ConnPipe []*Pipe
	Calls    []*CallRec
	Execs    []*ExecRec
	Streams  []*StreamRec
	Viol     []Violation
	Probes   map[string]int
	nextID   uint64
	opsDone  int
	retainedBufs []retained
	shutdownQ simrt.WaitQ
	shutdown bool
	joinQ    simrt.WaitQ
	Wedged      string // stacks, if the teardown of the world did not finish (a library call never returned)
	mainReturned bool
	FaultSeq    uint64 // event sequence number at which the first operation-triggered fault fired
	TeardownSeq uint64 // event sequence number at which the harness began to tear the world down
	streamEvQ simrt.WaitQ // woken at every progress step of a stream (opened, message read / written on either end)
	active   int
	listenGen []*listenState
	Notes    []string
	SimEnd   time.Duration
	LiveAtEnd []simrt.GInfo
	TearingDown bool
	Closing  bool
	TS       *tState
	CS       *cState
	CL       *closeState
	Points   []string // enumerated fault points that actually fired in this run (fault-enumeration checks)
	Ref      *World // C12: the same workload under the reference configuration
	Puppets  []*puppetConn
	PuppetFlags map[uint64]uint32
	PuppetLis *Listener
	byID     map[uint64]*CallRec
	opIdx    map[int]int
	Arrivals map[int][]uint64 // client -> call ids in the order they arrived on its shared Done channel
}

func (w *World) Violate(oracle, sig, detail string) {
	w.Viol = append(w.Viol, Violation{oracle, sig, detail})
}

func (w *World) Probe(name string) { w.Probes[name]++ }

func (w *World) newID() uint64 { w.nextID++; return w.nextID }

func (w *World) retain(b []byte, what string, id uint64) {
	if len(b) == 0 {
		return
	}
	w.retainedBufs = append(w.retainedBufs, retained{what, id, b, Digest(b)})
}

// ---------------------------------------------------------------------------
// Options

var shapes = []string{"Echo", "EchoCtx", "EchoRet", "EchoCtxRet"}

func (w *World) methodName(shape int) string {
	prefix := "Svc."
	switch w.P.Codec {
	case "pb":
		return prefix + "P" + shapes[shape%len(shapes)]
	case "bytes":
		return prefix + "B" + shapes[shape%2] // bytes handlers exist for Echo and EchoCtx
	}
	return prefix + shapes[shape%len(shapes)]
}

type bytesCodec struct{ rpc.BYTESCodec }

func newBytesCodec() rpc.Codec { return &rpc.BYTESCodec{} }

func (w *World) options(clientBuf int) *rpc.Options {
	p := w.P
	o := &rpc.Options{ClientBufferSize: clientBuf}
	if p.TLS {
		if w.Net.TLSWant == nil {
			w.Net.TLSWant = &tls.Config{ServerName: "sim", InsecureSkipVerify: true}
		}
		o.TLSConfig = w.Net.TLSWant
	}
	if p.ByName {
		o.Network = "sim"
		if p.Codec == "bytes" {
			o.NewCodec = newBytesCodec
		} else {
			o.Codec = p.Codec
		}
		o.HeaderEncoder = p.Header
		if p.Mixed {
			// constructors that disagree with the names: a registered name wins on both ends
			if p.Codec != "bytes" {
				if p.Codec == "json" {
					o.NewCodec = rpc.NewPBCodec
				} else {
					o.NewCodec = rpc.NewJSONCodec
				}
			}
			if p.Header != "" {
				if p.Header == "json" {
					o.NewHeaderEncoder = rpc.NewCODEEncoder
				} else {
					o.NewHeaderEncoder = rpc.NewJSONEncoder
				}
			}
			o.NewSocket = func(*tls.Config) socket.Socket { return nil }
		}
	} else {
		o.NewSocket = func(c *tls.Config) socket.Socket { w.Net.noteTLS(c); return w.Net.Socket() }
		switch p.Codec {
		case "json":
			o.NewCodec = rpc.NewJSONCodec
		case "code":
			o.NewCodec = rpc.NewCODECodec
		case "pb":
			o.NewCodec = rpc.NewPBCodec
		case "bytes":
			o.NewCodec = newBytesCodec
		}
		switch p.Header {
		case "json":
			o.NewHeaderEncoder = rpc.NewJSONEncoder
		case "code":
			o.NewHeaderEncoder = rpc.NewCODEEncoder
		case "pb":
			o.NewHeaderEncoder = rpc.NewPBEncoder
		}
	}
	return o
}

var currentNet *Net

func init() {
	// options by name resolve "sim" to the network of the current run
	rpc.RegisterSocket("sim", func(c *tls.Config) socket.Socket { currentNet.noteTLS(c); return currentNet.Socket() })
}

func addrOf(i int) string { return fmt.Sprintf("srv%d:1", i) }

// ---------------------------------------------------------------------------
// Servers and services

func (w *World) startServer(i int) {
	cfg := w.P.Servers[i]
	s := rpc.NewServer()
	s.SetLogLevel(rpc.OffLogLevel)
	s.SetPoll(cfg.Poll)
	s.SetPipelining(cfg.Pipelining)
	s.SetDirectIO(cfg.DirectIO)
	if cfg.BufferSize != 0 {
		s.SetBufferSize(cfg.BufferSize)
	}
	s.SetContextBuffer(cfg.Shared)
	s.SetNoCopy(cfg.NoCopy)
	s.RegisterName("Svc", &Svc{w: w, sid: i})
	for k := range w.P.Streams {
		if c := w.P.Streams[k].Conn; c < len(w.P.Conns) && w.P.Conns[c].Server == i {
			s.RegisterName(fmt.Sprintf("St%d", k), &StreamSvc{w: w, k: k})
		}
	}
	w.Servers[i] = s
	opts := w.options(0)
	gen := &listenState{}
	w.listenGen[i] = gen
	simrt.Go(fmt.Sprintf("harness.listen.%d", i), func() {
		var err error
		if w.P.Plain {
			err = s.Listen("sim", addrOf(i), w.P.Codec)
		} else {
			err = s.ListenWithOptions(addrOf(i), opts)
		}
		gen.returned = true
		if err != nil {
			gen.err = err.Error()
		}
	})
	// wait until the listener exists
	for n := 0; ; n++ {
		// ready = the server is blocked in Accept (it has then registered its listener, so a
		// later Server.Close can reach it)
		if l := w.Net.listeners[addrOf(i)]; l != nil && !l.closed && l.aq.Len() > 0 {
			break
		}
		if gen.returned || n > 10000 {
			w.Notes = append(w.Notes, fmt.Sprintf("server %d did not start: %s", i, gen.err))
			break
		}
		simrt.Gosched()
	}
	w.ServerUp[i] = true
}

// Svc is registered as "Svc" on every server.
type Svc struct {
	w   *World
	sid int
}

func (s *Svc) ident() uint32 {
	inc := 0
	if l := s.w.Net.listeners[addrOf(s.sid)]; l != nil {
		inc = l.Incarnation
	}
	return uint32(s.sid*1000 + inc)
}

var errNoAnswerReleased = errors.New("released at shutdown")

// shutdownTextArg as the Arg of a failing request makes the handler return an error with the
// text of rpc.ErrShutdown.
const shutdownTextArg = 77777

func (s *Svc) do(ctx context.Context, req, res *Msg, shape string) error {
	w := s.w
	rec := &ExecRec{Server: s.sid, ID: req.ID, Shape: shape, Start: simrt.Seq(), ArgLen: len(req.Pad), G: simrt.Self()}
	rec.ArgOK = PadOK(req.Pad, ReqKey(req.ID))
	w.Execs = append(w.Execs, rec)
	// Behaviour flags are honoured only when they are the ones the harness put
	// into this request: a corrupted frame (C08) must not script the handler.
	flags := req.Flags
	if c := w.byID[req.ID]; c != nil {
		if c.Flags != flags || c.Arg != req.Arg {
			flags = 0
		}
	} else if pf, ok := w.PuppetFlags[req.ID]; !ok || pf != flags {
		flags = 0
	}
	req = &Msg{ID: req.ID, Flags: flags, Server: req.Server, N: req.N, Arg: req.Arg, Pad: req.Pad}
	if req.N > 1<<20 {
		req.N = 8
	}
	if req.Flags&FlRetain != 0 {
		w.retain(req.Pad, "handler-arg", req.ID)
	}
	if ctx != nil {
		if b := rpc.GetContextBuffer(ctx); b != nil {
			w.Probe("server-context-buffer")
		}
	}
	if req.Flags&FlYield != 0 {
		for i := 0; i < 3; i++ {
			simrt.Gosched()
		}
	}
	if req.Flags&FlSlow != 0 {
		simrt.Sleep(time.Duration(req.Arg) * time.Microsecond)
	}
	if req.Flags&FlNoAnswer != 0 {
		for !w.shutdown {
			simrt.Park(&w.shutdownQ)
		}
		rec.End = simrt.Seq()
		return errNoAnswerReleased
	}
	rec.End = simrt.Seq()
	if req.Flags&FlFail != 0 {
		if req.Arg == shutdownTextArg {
			// a handler may return any error, also one that reads like the library's own
			return errors.New(rpc.ErrShutdown.Error())
		}
		return errors.New(ErrText(req.ID, int(req.Arg)))
	}
	if req.Flags&FlEmpty != 0 && req.Flags&FlBadReply == 0 {
		*res = Msg{}
		return nil
	}
	res.ID = req.ID
	res.Server = s.ident()
	res.Flags = req.Flags
	res.Pad = MakePad(RepKey(req.ID), int(req.N))
	if req.Flags&FlBadReply != 0 {
		res.ID = badMarshalID
	}
	return nil
}

func (s *Svc) Echo(req *Msg, res *Msg) error { return s.do(nil, req, res, "Echo") }
func (s *Svc) EchoCtx(ctx context.Context, req *Msg, res *Msg) error {
	return s.do(ctx, req, res, "EchoCtx")
}
func (s *Svc) EchoRet(req *Msg) (*Msg, error) {
	res := &Msg{}
	err := s.do(nil, req, res, "EchoRet")
	return res, err
}
func (s *Svc) EchoCtxRet(ctx context.Context, req *Msg) (*Msg, error) {
	res := &Msg{}
	err := s.do(ctx, req, res, "EchoCtxRet")
	return res, err
}
func (s *Svc) PEcho(req *PBMsg, res *PBMsg) error { return s.do(nil, (*Msg)(req), (*Msg)(res), "PEcho") }
func (s *Svc) PEchoCtx(ctx context.Context, req *PBMsg, res *PBMsg) error {
	return s.do(ctx, (*Msg)(req), (*Msg)(res), "PEchoCtx")
}
func (s *Svc) PEchoRet(req *PBMsg) (*PBMsg, error) {
	res := &Msg{}
	err := s.do(nil, (*Msg)(req), res, "PEchoRet")
	return (*PBMsg)(res), err
}
func (s *Svc) PEchoCtxRet(ctx context.Context, req *PBMsg) (*PBMsg, error) {
	res := &Msg{}
	err := s.do(ctx, (*Msg)(req), res, "PEchoCtxRet")
	return (*PBMsg)(res), err
}

func (s *Svc) bdo(ctx context.Context, req *[]byte, res *[]byte, shape string) error {
	var m Msg
	if _, err := m.get(*req); err != nil {
		// undecodable at the application level: report like a decode failure
		return errors.New("bytes handler: " + err.Error())
	}
	var out Msg
	if err := s.do(ctx, &m, &out, shape); err != nil {
		return err
	}
	if out.isZero() {
		*res = []byte{}
		return nil
	}
	b, err := out.Marshal(nil)
	if err != nil {
		return err
	}
	*res = b
	return nil
}
func (s *Svc) BEcho(req *[]byte, res *[]byte) error { return s.bdo(nil, req, res, "BEcho") }
func (s *Svc) BEchoCtx(ctx context.Context, req *[]byte, res *[]byte) error {
	return s.bdo(ctx, req, res, "BEchoCtx")
}

// ---------------------------------------------------------------------------
// Streams

// StreamIO is the handler-side view of a stream (the shape funcs.isStream wants).
type StreamIO struct{ s rpc.Stream }

func (s *StreamIO) Connect(stream rpc.Stream) error { s.s = stream; return nil }
func (s *StreamIO) Read(buf []byte, m *Msg) error   { return s.s.ReadMessage(buf, m) }
func (s *StreamIO) Write(m *Msg) error              { return s.s.WriteMessage(m) }

// PStreamIO is StreamIO for the pb body codec.
type PStreamIO struct{ s rpc.Stream }

func (s *PStreamIO) Connect(stream rpc.Stream) error { s.s = stream; return nil }
func (s *PStreamIO) Read(buf []byte, m *PBMsg) error { return s.s.ReadMessage(buf, m) }
func (s *PStreamIO) Write(m *PBMsg) error            { return s.s.WriteMessage(m) }

// watchTeardown is called when a world starts to tear itself down (closing connections, pools,
// clients and servers): if the world's main goroutine has not finished five simulated minutes
// later, a library call it made never returned. The run is ended and reported as wedged.
func (w *World) watchTeardown() {
	simrt.Go("harness.watchdog", func() {
		simrt.Sleep(5 * time.Minute)
		if !w.mainReturned && w.Wedged == "" {
			w.Wedged = simrt.AllStacks()
			simrt.Abort()
		}
	})
}

// readBuf is the buffer a reader hands to ReadMessage for its n-th read: nil, or a fresh one of the
// planned capacity, alternately empty and full length (a message may alias it, so it is never reused).
func readBuf(c, n int) []byte {
	if c <= 0 {
		return nil
	}
	if n%2 == 0 {
		return make([]byte, 0, c)
	}
	return make([]byte, c)
}

// StreamSvc is registered as "St<k>" for planned stream k.
type StreamSvc struct {
	w *World
	k int
}

func (ss *StreamSvc) run(read func(*Msg) error, write func(*Msg) error) error {
	w := ss.w
	rec := w.Streams[ss.k]
	rec.HandlerStart = simrt.Seq()
	w.streamEvQ.WakeAll()
	w.Execs = append(w.Execs, &ExecRec{Server: w.P.Conns[rec.Plan.Conn].Server, ID: uint64(1<<40 + ss.k), Shape: "stream", Start: rec.HandlerStart, Stream: true, G: simrt.Self()})
	defer func() { rec.HandlerEnd = simrt.Seq() }()
	if rec.Plan.BadPush {
		// fails on the server before anything is written; only this write may be affected
		write(&Msg{ID: badMarshalID})
		w.Probe("unencodable-stream-push")
	}
	for i := 0; i < rec.Plan.Push; i++ {
		id := uint64(ss.k)<<32 | uint64(1<<20+i)
		sz := 8
		if i < len(rec.Plan.PSizes) {
			sz = rec.Plan.PSizes[i]
		}
		m := &Msg{ID: id, Server: uint32(ss.k), Pad: MakePad(id, sz)}
		if e := rec.Plan.Empty; e > 0 && (len(rec.SSent)+1)%e == 0 {
			m, id = &Msg{}, 0
		}
		if err := write(m); err != nil {
			rec.HandlerErr = err.Error()
			return err
		}
		rec.SSent = append(rec.SSent, id)
	}
	var helperQ simrt.WaitQ
	if rec.Plan.Readers2 {
		// a second reader on the handler's end: it only consumes; the handler returns once both
		// readers have been released
		simrt.Go(fmt.Sprintf("harness.handler-reader.%d", ss.k), func() {
			defer func() {
				rec.helperDone = true
				helperQ.WakeAll()
			}()
			for {
				var m Msg
				if err := read(&m); err != nil {
					return
				}
				rec.SGot = append(rec.SGot, m.ID)
				w.streamEvQ.WakeAll()
			}
		})
		defer func() {
			for !rec.helperDone {
				simrt.Park(&helperQ)
			}
		}()
	}
	for {
		var m Msg
		if err := read(&m); err != nil {
			rec.HandlerErr = err.Error()
			return err
		}
		if int(m.Server) != ss.k && !m.isZero() {
			rec.Foreign++
		}
		if !PadOK(m.Pad, m.ID) {
			rec.BadPayload++
		}
		rec.SGot = append(rec.SGot, m.ID)
		w.streamEvQ.WakeAll()
		if rec.Plan.Echo {
			id := m.ID | 1<<31
			out := &Msg{ID: id, Server: uint32(ss.k), Pad: MakePad(id, len(m.Pad))}
			if m.isZero() {
				out, id = &Msg{}, 0 // the zero message is echoed as the zero message
			}
			if err := write(out); err != nil {
				rec.HandlerErr = err.Error()
				return err
			}
			rec.SSent = append(rec.SSent, id)
			w.streamEvQ.WakeAll()
		}
	}
}

func (ss *StreamSvc) Run(st *StreamIO) error {
	n := 0
	return ss.run(func(m *Msg) error { n++; return st.Read(readBuf(ss.w.P.Streams[ss.k].RBuf, n), m) }, st.Write)
}

func (ss *StreamSvc) PRun(st *PStreamIO) error {
	n := 0
	return ss.run(func(m *Msg) error { n++; return st.Read(readBuf(ss.w.P.Streams[ss.k].RBuf, n), (*PBMsg)(m)) }, func(m *Msg) error { return st.Write((*PBMsg)(m)) })
}

// ---------------------------------------------------------------------------

func errKind(err error) string {
	switch {
	case err == nil:
		return ""
	case err == rpc.ErrShutdown:
		return "shutdown"
	case err == rpc.ErrTimeout:
		return "timeout"
	case err == rpc.ErrDial:
		return "dial"
	case err == context.Canceled:
		return "canceled"
	case err == context.DeadlineExceeded:
		return "deadline"
	case err == rpc.ErrStreamShutdown:
		return "stream-shutdown"
	}
	return "other"
}

func sortedKeys(m map[string]int) []string {
	ks := make([]string, 0, len(m))
	for k := range m {
		ks = append(ks, k)
	}
	sort.Strings(ks)
	return ks
}

func descCall(c *CallRec) string {
	return fmt.Sprintf("call id=%d form=%s method=%s conn=%d client=%d size=%d rep=%d flags=%#x err=%q", c.ID, c.Form, c.Method, c.Conn, c.Client, c.Size, c.Rep, c.Flags, c.Err)
}

type listenState struct {
	returned bool
	err      string
}

// ListenReturned reports whether the Listen call of the current incarnation of server i has returned.
func (w *World) ListenReturned(i int) bool { return w.listenGen[i] != nil && w.listenGen[i].returned }
