package harness

import (
	"fmt"
	"strings"
	"time"

	"github.com/hslam/rpc"

	"verif/sim/simrt"
)

// C20: Close releases every resource and is idempotent.
//
// Params: variant 0 Conn(s)+Server, 1 Transport+Servers, 2 Client(real Transport)+Servers
//         work_ms   how long the workload runs before the closes start
// Lists[0]: the close order, as participant codes (repeats = repeated Close):
//           0..: client-side participants (conn i / the transport / the client), 100+i: server i

type closeRec struct {
	Who   string
	Nth   int
	Err   string
	Start uint64
	End   uint64
}

type closeState struct {
	T       *rpc.Transport
	C       *rpc.Client
	closes  []*closeRec
	pending int
	q       simrt.WaitQ
}

func (w *World) doClose(cs *closeState, code int) {
	who := ""
	var fn func() error
	v := w.P.Params["variant"]
	switch {
	case code >= 100:
		i := code - 100
		who = fmt.Sprintf("server%d", i)
		fn = func() error { return w.Servers[i].Close() }
	case v == 0:
		who = fmt.Sprintf("conn%d", code)
		c := w.Conns[code]
		if c == nil {
			return
		}
		fn = c.Close
	case v == 1:
		who = "transport"
		fn = cs.T.Close
	default:
		who = "client"
		fn = cs.C.Close
	}
	n := 0
	for _, r := range cs.closes {
		if r.Who == who {
			n++
		}
	}
	rec := &closeRec{Who: who, Nth: n + 1}
	cs.closes = append(cs.closes, rec)
	cs.pending++
	simrt.Go("harness.closer."+who, func() {
		defer func() {
			cs.pending--
			cs.q.WakeAll()
		}()
		rec.Start = simrt.Seq()
		err := fn()
		rec.End = simrt.Seq()
		if err != nil {
			rec.Err = err.Error()
		}
	})
}

// RunCloseWorld is the main goroutine of the C20 scenario.
func (w *World) RunCloseWorld() {
	p := w.P
	cs := &closeState{}
	w.CL = cs
	for i := range p.Servers {
		w.startServer(i)
	}
	variant := p.Params["variant"]
	switch variant {
	case 0:
		for i, cc := range p.Conns {
			conn, err := rpc.DialWithOptions(addrOf(cc.Server), w.options(cc.BufferSize))
			if err != nil {
				w.Notes = append(w.Notes, fmt.Sprintf("dial conn %d: %v", i, err))
				continue
			}
			if cc.Pipelining {
				conn.SetPipelining(true)
			}
			if cc.DirectSet == 1 {
				conn.SetDirectIO(true)
			} else if cc.DirectSet == 2 {
				conn.SetDirectIO(false)
			}
			w.Conns[i] = conn
			w.ConnPipe[i] = w.Net.Pipes[len(w.Net.Pipes)-1]
		}
	case 1:
		cs.T = &rpc.Transport{Options: w.options(0), MaxConnsPerHost: p.Params["maxconns"], MaxIdleConnsPerHost: p.Params["maxidle"],
			KeepAlive: time.Duration(p.Params["keepalive_ms"]) * time.Millisecond, IdleConnTimeout: time.Duration(p.Params["idle_ms"]) * time.Millisecond}
		w.TS = &tState{T: cs.T, down: make([]bool, len(p.Servers)+2), maxOpen: map[string]int{}, effConns: 1 << 30, effIdle: 1 << 30}
	case 2:
		var targets []string
		for i := 0; i < len(p.Servers)+p.Params["ghosts"]; i++ {
			targets = append(targets, addrOf(i)) // ghosts: addresses nobody listens on (failed dials)
		}
		cs.C = rpc.NewClient(w.options(0), targets...)
		cs.C.DialTimeout = time.Duration(p.Params["dialtimeout_ms"]) * time.Millisecond
		cs.C.Scheduling = rpc.Scheduling(p.Params["sched"])
	}
	w.active = len(p.Clients)
	for ci := range p.Clients {
		ci := ci
		simrt.Go(fmt.Sprintf("harness.user.%d", ci), func() {
			defer func() {
				w.active--
				w.joinQ.WakeAll()
			}()
			switch variant {
			case 0:
				w.runClient(ci)
			case 1:
				w.runTCaller(ci)
			case 2:
				w.runRealClientCaller(ci, cs.C)
			}
		})
	}
	simrt.Sleep(time.Duration(p.Params["work_ms"]) * time.Millisecond)
	// From here on users do not start new operations: the property is about histories
	// before Close (calls in flight or blocked at that moment are the interesting part).
	w.Closing = true
	// the closes, in plan order, each in its own goroutine (so repeated closes can overlap)
	for k, code := range p.Lists[0] {
		w.doClose(cs, code)
		for i := 0; i < p.Lists[1][k]; i++ {
			simrt.Gosched()
		}
	}
	deadline := simrt.Now() + 5*time.Minute
	for cs.pending > 0 {
		left := deadline - simrt.Now()
		if left <= 0 {
			break
		}
		simrt.ParkTimeout(&cs.q, left)
	}
	// users must come back now that everything is closed
	w.shutdown = true
	w.shutdownQ.WakeAll()
	deadline = simrt.Now() + joinGrace
	for w.active > 0 {
		left := deadline - simrt.Now()
		if left <= 0 {
			w.Probe("join-timeout")
			break
		}
		simrt.ParkTimeout(&w.joinQ, left)
	}
	w.TearingDown = true
	w.watchTeardown()
	// handlers may legitimately outlive their callers (a Slow handler keeps sleeping after its
	// connection was closed): inspect only after the longest scripted handler has finished
	var slow time.Duration
	for _, cp := range p.Clients {
		for _, op := range cp.Ops {
			if op.Flags&FlSlow != 0 {
				slow += time.Duration(op.Arg) * time.Microsecond // pipelining servers run them one after another
			}
		}
	}
	simrt.Sleep(slow + 5*time.Second)
	w.collectSignals()
	w.SimEnd = simrt.Now()
	w.LiveAtEnd = simrt.Live()
}

// runRealClientCaller issues calls through a real Client over a real Transport.
func (w *World) runRealClientCaller(ci int, c *rpc.Client) {
	cp := &w.P.Clients[ci]
	for oi := range cp.Ops {
		if w.Closing {
			return
		}
		op := &cp.Ops[oi]
		mk := func(form string) (*CallRec, interface{}, interface{}) {
			cr := w.newCall(ci, -1, op, form)
			cr.Addr = -1
			args, reply := w.argsAndReply(cr)
			cr.Invoke, cr.InvokeT = simrt.Seq(), simrt.Now()
			return cr, args, reply
		}
		switch op.Kind {
		case "call":
			cr, args, reply := mk("call")
			w.finishBlocking(cr, c.Call(cr.Method, args, reply))
		case "ping":
			cr, _, _ := mk("ping")
			w.finishBlocking(cr, c.Ping())
		case "go":
			cr, args, reply := mk("go")
			cr.done = make(chan *rpc.Call, 4)
			cr.call = c.Go(cr.Method, args, reply, cr.done)
			w.waitAsync(cr)
		case "sleep":
			simrt.Sleep(time.Duration(op.N) * time.Microsecond)
		case "fallback":
			c.Fallback(time.Duration(op.N) * time.Microsecond)
			w.Probe("fallback-pending")
		}
	}
}

func genC20(r *simrt.Rand, tier string, idx uint64) *Plan {
	p := genBase(r, "c20", true)
	if p.Codec == "bytes" {
		p.Codec = "code"
	}
	variant := int(idx % 3)
	p.Params = map[string]int{"variant": variant, "work_ms": []int{0, 1, 50, 1500, 4000}[r.Intn(5)]}
	for i := range p.Servers {
		p.Servers[i].Poll = false // the statement covers non-poll servers
	}
	ns := len(p.Servers)
	small := -1
	var clientSide []int
	longOp := func() Op {
		op := Op{Kind: []string{"call", "go", "call", "ping"}[r.Intn(4)], Shape: r.Intn(4), Size: r.Intn(100), Rep: r.Intn(100), CtxBuf: -1, Addr: r.Intn(ns)}
		switch r.Intn(4) {
		case 0:
			op.Flags, op.Arg = FlSlow, uint32(1000*(1+r.Intn(8000)))
		case 1:
			op.Flags = FlNoAnswer // in flight until the world ends
		}
		return op
	}
	switch variant {
	case 0:
		for i := range p.Conns {
			p.Conns[i].DirectSet = genDirectSet(r)
			clientSide = append(clientSide, i)
		}
		nstreams := 0
		for c := 0; c < r.Intn(4); c++ {
			cp := ClientPlan{Conn: r.Intn(len(p.Conns))}
			for i := 0; i < 1+r.Intn(4); i++ {
				cp.Ops = append(cp.Ops, longOp())
			}
			p.Clients = append(p.Clients, cp)
		}
		for s := 0; s < r.Intn(3); s++ {
			conn := r.Intn(len(p.Conns))
			p.Streams = append(p.Streams, StreamPlan{Conn: conn, Echo: true, Push: r.Intn(2), Sizes: []int{5, 6}})
			// open stream with a reader blocked in it
			p.Clients = append(p.Clients, ClientPlan{Conn: conn, Ops: []Op{{Kind: "sopen", Stream: nstreams}, {Kind: "swrite", Stream: nstreams, N: 1}, {Kind: "sread", Stream: nstreams, N: 3}}})
			if r.Chance(1, 2) {
				// another goroutine writes to the stream while a third closes it: a message may reach
				// the server after the close of its stream has been processed
				p.Streams[nstreams].Sizes = []int{5, 6, 7, 8, 9, 10}
				p.Clients = append(p.Clients,
					ClientPlan{Conn: conn, Ops: []Op{{Kind: "await", Stream: nstreams, Shape: 0}, {Kind: "spin", N: r.Intn(4)}, {Kind: "swrite", Stream: nstreams, N: 2 + r.Intn(3)}}},
					ClientPlan{Conn: conn, Ops: []Op{{Kind: "await", Stream: nstreams, Shape: 0}, {Kind: "spin", N: r.Intn(6)}, {Kind: "sclose", Stream: nstreams}}})
			}
			nstreams++
		}
		_ = small
	case 1:
		p.Conns = nil
		p.Params["maxconns"] = 1 + r.Intn(3)
		p.Params["maxidle"] = 1 + r.Intn(2)
		p.Params["keepalive_ms"] = []int{1000, 2000, 5000}[r.Intn(3)]
		p.Params["idle_ms"] = []int{1000, 2000, 5000}[r.Intn(3)]
		clientSide = []int{0}
		for c := 0; c < r.Intn(4); c++ {
			cp := ClientPlan{}
			for i := 0; i < 1+r.Intn(4); i++ {
				cp.Ops = append(cp.Ops, longOp())
				if r.Chance(1, 3) {
					cp.Ops = append(cp.Ops, Op{Kind: "sleep", N: 1000 * r.Intn(3000)})
				}
			}
			p.Clients = append(p.Clients, cp)
		}
		if r.Chance(1, 3) { // a dead peer before Close
			p.Clients = append(p.Clients, ClientPlan{Ops: []Op{{Kind: "call", Addr: 0, Size: 3, Rep: 3, CtxBuf: -1}, {Kind: "kill", Addr: 0}}})
		}
	case 2:
		p.Conns = nil
		p.Params["ghosts"] = r.Intn(2)
		p.Params["dialtimeout_ms"] = []int{100, 1000, 60000}[r.Intn(3)]
		p.Params["sched"] = r.Intn(3)
		clientSide = []int{0}
		for c := 0; c < r.Intn(5); c++ {
			cp := ClientPlan{}
			for i := 0; i < 1+r.Intn(4); i++ {
				op := longOp()
				if op.Kind == "call" && op.Flags == FlNoAnswer && r.Bool() {
					op.Flags = 0
				}
				cp.Ops = append(cp.Ops, op)
			}
			p.Clients = append(p.Clients, cp)
		}
		if r.Chance(1, 3) {
			// a Fallback pause still pending when the Client is closed
			p.Clients = append(p.Clients, ClientPlan{Ops: []Op{{Kind: "sleep", N: 1000 * r.Intn(200)}, {Kind: "fallback", N: 1000 * (500 + r.Intn(30000))}}})
			if p.Params["work_ms"] < 50 {
				p.Params["work_ms"] = 50 + r.Intn(1500)
			}
		}
		if r.Chance(1, 4) {
			// nobody listens at all: callers wait in the Client
			p.Params["ghosts"] = 1 + r.Intn(2)
			p.Params["all_ghosts"] = 1
		}
	}
	// close order: every participant at least once, some twice, PRNG order
	var order []int
	for _, c := range clientSide {
		order = append(order, c)
		if r.Chance(1, 2) {
			order = append(order, c)
		}
	}
	for i := 0; i < ns; i++ {
		order = append(order, 100+i)
		if r.Chance(1, 3) {
			order = append(order, 100+i)
		}
	}
	for i := len(order) - 1; i > 0; i-- {
		j := r.Intn(i + 1)
		order[i], order[j] = order[j], order[i]
	}
	gaps := make([]int, len(order))
	for i := range gaps {
		gaps[i] = r.Intn(6)
	}
	p.Lists = [][]int{order, gaps}
	p.Faults = nil
	return p
}

func checkC20(w *World, run *simrt.Run) {
	cs := w.CL
	if cs == nil {
		return
	}
	variant := w.P.Params["variant"]
	// repeated Close calls
	byWho := map[string][]*closeRec{}
	for _, r := range cs.closes {
		if r.End == 0 {
			w.Violate("C20.close-hangs", "close-never-returned:"+strings.TrimRight(r.Who, "0123456789"), fmt.Sprintf("%s.Close() call number %d did not return", r.Who, r.Nth))
			continue
		}
		byWho[r.Who] = append(byWho[r.Who], r)
	}
	for who, rs := range byWho {
		if strings.HasPrefix(who, "conn") {
			ok := 0
			for _, r := range rs {
				if r.Err != rpc.ErrShutdown.Error() {
					ok++
				}
			}
			if ok != 1 {
				w.Violate("C20.idempotence", "conn-close-results", fmt.Sprintf("%s: %d Close calls, %d did not report ErrShutdown (exactly the first one should not)", who, len(rs), ok))
			}
			// strictly sequential second close
			for i, r := range rs {
				for _, q := range rs[:i] {
					if q.End < r.Start && r.Err != rpc.ErrShutdown.Error() {
						w.Violate("C20.idempotence", "second-conn-close-not-errshutdown", fmt.Sprintf("%s: a Close that started after another had returned reported %q", who, r.Err))
					}
				}
			}
		} else {
			for _, r := range rs {
				if r.Err != "" {
					w.Violate("C20.idempotence", "close-returned-error:"+strings.TrimRight(who, "0123456789"), fmt.Sprintf("%s.Close() call %d returned %q", who, r.Nth, r.Err))
				}
			}
		}
		if len(rs) > 1 {
			w.Probe("repeated-close")
		}
	}
	// Server.Close makes Listen return
	for i := range w.P.Servers {
		if !w.ListenReturned(i) {
			w.Violate("C20.listen", "listen-did-not-return", fmt.Sprintf("server %d: ListenWithOptions has not returned after Server.Close", i))
		}
	}
	// every connection is closed on the side of a closed participant
	for _, p := range w.Net.Pipes {
		if !p.Ends[0].closed {
			w.Violate("C20.socket-leak", "client-side-connection-not-closed:"+[]string{"conn", "transport", "client"}[variant], fmt.Sprintf("connection #%d to %s (opened at %v) was never closed by the dialing side although it was closed", p.ID, p.Addr, p.Opened))
		}
		if !p.Ends[1].closed {
			w.Violate("C20.socket-leak", "server-side-connection-not-closed", fmt.Sprintf("connection #%d accepted at %s was never closed by the server although the server was closed and the peer is gone", p.ID, p.Addr))
		}
	}
	// every background goroutine of the library has exited; users have returned
	for _, g := range w.LiveAtEnd {
		if g.Lib {
			site := g.Site
			if i := strings.LastIndex(site, ":"); i > 0 {
				site = site[:i] // drop the line number, keep function and file
			}
			w.Violate("C20.goroutine-leak", "goroutine-leak:"+site, fmt.Sprintf("goroutine %s spawned at %s is still alive (%s) after every participant was closed", g.ID, g.Site, g.State))
		} else if strings.HasPrefix(g.Site, "harness.user") {
			w.Violate("C20.stranded", "caller-still-blocked-after-close", fmt.Sprintf("user goroutine %s (%s) never returned", g.ID, g.Site))
		}
	}
	w.Probes["connections-checked"] += len(w.Net.Pipes)
}

func init() {
	register(&Scenario{Property: "C20", Name: "c20", Gen: genC20, Main: (*World).RunCloseWorld, Check: checkC20})
}
