package harness

import (
	"encoding/binary"
	"encoding/json"
	"fmt"
)

// Independent decoder of the documented wire formats, used by the oracles to
// see what actually crossed the simulated wire (it shares no code with rpc).

// Frame is one decoded message.
type Frame struct {
	Off     int // offset of the length prefix in the stream
	End     int // offset just past the frame
	Seq     uint64
	Upgrade []byte
	Method  string
	Error   string
	Body    []byte
	Bad     string // decode problem, if any
	// decoded upgrade flags
	NoRequest, NoResponse, Heartbeat bool
	Stream                          int
}

// SplitFrames cuts a byte stream into length-prefixed frames; rest is the
// number of trailing bytes that do not form a complete frame.
func SplitFrames(b []byte) (frames [][2]int, rest int) {
	off := 0
	for off < len(b) {
		l, k := binary.Uvarint(b[off:])
		if k <= 0 {
			break
		}
		if off+k+int(l) > len(b) {
			break
		}
		frames = append(frames, [2]int{off + k, off + k + int(l)})
		off += k + int(l)
	}
	return frames, len(b) - off
}

func pbFields(b []byte) (map[int][]byte, map[int]uint64, string) {
	bs := map[int][]byte{}
	vs := map[int]uint64{}
	off := 0
	for off < len(b) {
		tag := b[off]
		off++
		fn, wt := int(tag>>3), tag&7
		switch wt {
		case 0:
			v, k := binary.Uvarint(b[off:])
			if k <= 0 {
				return bs, vs, "bad varint"
			}
			vs[fn] = v
			off += k
		case 2:
			l, k := binary.Uvarint(b[off:])
			if k <= 0 || off+k+int(l) > len(b) {
				return bs, vs, "bad length"
			}
			bs[fn] = b[off+k : off+k+int(l)]
			off += k + int(l)
		default:
			return bs, vs, fmt.Sprintf("wire type %d", wt)
		}
	}
	return bs, vs, ""
}

func codeFields(b []byte, n int) (seq uint64, fields [][]byte, bad string) {
	v, k := binary.Uvarint(b)
	if k <= 0 {
		return 0, nil, "bad seq"
	}
	seq = v
	off := k
	for i := 0; i < n; i++ {
		l, k := binary.Uvarint(b[off:])
		if k <= 0 || off+k+int(l) > len(b) {
			return seq, fields, "bad length"
		}
		fields = append(fields, b[off+k:off+k+int(l)])
		off += k + int(l)
	}
	return seq, fields, ""
}

func (f *Frame) flags() {
	if len(f.Upgrade) > 0 {
		u := f.Upgrade[0]
		f.NoRequest = u>>7&1 == 1
		f.NoResponse = u>>6&1 == 1
		f.Heartbeat = u>>5&1 == 1
		f.Stream = int(u >> 3 & 3)
	}
}

// DecodeStream decodes every complete frame of one direction of a connection.
func DecodeStream(b []byte, header string, request bool) []Frame {
	idx, _ := SplitFrames(b)
	var out []Frame
	for _, se := range idx {
		data := b[se[0]:se[1]]
		f := Frame{Off: se[0], End: se[1]}
		switch header {
		case "", "pb":
			bs, vs, bad := pbFields(data)
			f.Bad = bad
			f.Seq = vs[1]
			if request {
				f.Upgrade, f.Method, f.Body = bs[2], string(bs[3]), bs[4]
			} else {
				f.Error, f.Body = string(bs[2]), bs[3]
			}
		case "code":
			if request {
				seq, fs, bad := codeFields(data, 3)
				f.Seq, f.Bad = seq, bad
				if len(fs) == 3 {
					f.Upgrade, f.Method, f.Body = fs[0], string(fs[1]), fs[2]
				}
			} else {
				seq, fs, bad := codeFields(data, 2)
				f.Seq, f.Bad = seq, bad
				if len(fs) == 2 {
					f.Error, f.Body = string(fs[0]), fs[1]
				}
			}
		case "json":
			if request {
				var r struct {
					I uint64 `json:"i"`
					U []byte `json:"u"`
					M string `json:"m"`
					P []byte `json:"p"`
				}
				if err := json.Unmarshal(data, &r); err != nil {
					f.Bad = err.Error()
				}
				f.Seq, f.Upgrade, f.Method, f.Body = r.I, r.U, r.M, r.P
			} else {
				var r struct {
					I uint64 `json:"i"`
					E string `json:"e"`
					R []byte `json:"r"`
				}
				if err := json.Unmarshal(data, &r); err != nil {
					f.Bad = err.Error()
				}
				f.Seq, f.Error, f.Body = r.I, r.E, r.R
			}
		}
		f.flags()
		out = append(out, f)
	}
	return out
}

// BodyID extracts the call id from a request/response body of the given codec (0 if unknown).
func BodyID(body []byte, codec string) uint64 {
	if len(body) == 0 {
		return 0
	}
	if codec == "json" {
		var m struct {
			I uint64 `json:"i"`
		}
		if json.Unmarshal(body, &m) == nil {
			return m.I
		}
		return 0
	}
	v, k := binary.Uvarint(body)
	if k <= 0 {
		return 0
	}
	return v
}
