package harness

import (
	"context"
	"fmt"
	"math"
	"sort"
	"strings"
	"time"

	"github.com/anishathalye/porcupine"
	"github.com/hslam/rpc"

	"verif/sim/simrt"
)

// Client-level worlds (C16, C17, C18): the real rpc.Client over a scripted
// fake RoundTripper. Plan.Params: sched (0 RR, 1 random, 2 least time),
// tick_ms, alpha (‰), dialtimeout_ms, director (1: a Director hook is installed).

// TargetPlan scripts one target address.
type TargetPlan struct {
	Up  [][2]int `json:"up"`  // (from ms, 1 up / 0 down), first entry at 0
	Lat [][2]int `json:"lat"` // (from ms, latency µs)
}

type routeRec struct {
	Addr    string
	Form    string
	Start   uint64 // event seq when the Client method was entered
	Arrive  uint64 // event seq at arrival in the RoundTripper
	StartT  time.Duration
	ArriveT time.Duration
	EndT    time.Duration
	Err     string
	ErrKind string
	User    bool // issued by a harness caller (not the Client's own detector)
	Caller  int
	Up      bool
}

type updateRec struct {
	List     []string
	Invoke   uint64
	Return   uint64
	InvokeT  time.Duration
}

type cState struct {
	C        *rpc.Client
	rt       *fakeRT
	routes   []*routeRec
	updates  []updateRec
	initial  []string
	director string
	closeInvoke, closeReturn uint64
	closeT   time.Duration
	closed   bool
	callerStart map[string]*routeRec // goroutine id -> the user call in progress
	results  []*cCallRec
}

type cCallRec struct {
	Caller  int
	Form    string
	Start   uint64
	End     uint64
	StartT  time.Duration
	EndT    time.Duration
	Err     string
	ErrKind string
	Route   *routeRec
	Returned bool
}

type fakeRT struct {
	w      *World
	closed int
}

func targetAddr(i int) string { return fmt.Sprintf("t%d:1", i) }

func (w *World) targetIdx(addr string) int {
	for i := range w.P.Targets {
		if targetAddr(i) == addr {
			return i
		}
	}
	return -1
}

func scriptAt(s [][2]int, now time.Duration) int {
	v := 0
	for _, e := range s {
		if time.Duration(e[0])*time.Millisecond <= now {
			v = e[1]
		}
	}
	return v
}

func (w *World) targetUp(i int, now time.Duration) bool {
	if i < 0 {
		return false
	}
	return scriptAt(w.P.Targets[i].Up, now) == 1
}

func (w *World) targetLat(i int, now time.Duration) time.Duration {
	if i < 0 {
		return 0
	}
	return time.Duration(scriptAt(w.P.Targets[i].Lat, now)) * time.Microsecond
}

// arrive records a routing decision of the Client and performs the scripted behaviour.
func (f *fakeRT) arrive(addr, form string) (*routeRec, error) {
	w := f.w
	cs := w.CS
	simrt.YieldKind(simrt.KHarness)
	rec := &routeRec{Addr: addr, Form: form, Arrive: simrt.Seq(), ArriveT: simrt.Now()}
	gid := simrt.Self()
	if cur := cs.callerStart[gid]; cur != nil {
		rec.User = true
		rec.Start, rec.StartT, rec.Caller = cur.Start, cur.StartT, cur.Caller
	}
	cs.routes = append(cs.routes, rec)
	i := w.targetIdx(addr)
	rec.Up = w.targetUp(i, simrt.Now())
	if addr == "" || !rec.Up {
		if d := w.P.Params["refuse_us"]; d > 0 && addr != "" {
			simrt.Sleep(time.Duration(d) * time.Microsecond)
		}
		rec.Err, rec.ErrKind = rpc.ErrDial.Error(), "dial"
		rec.EndT = simrt.Now()
		return rec, rpc.ErrDial
	}
	if d := w.targetLat(i, simrt.Now()); d > 0 {
		simrt.Sleep(d)
	}
	rec.EndT = simrt.Now()
	return rec, nil
}

func (f *fakeRT) RoundTrip(addr string, call *rpc.Call) *rpc.Call {
	_, err := f.arrive(addr, "rt")
	call.Error = err
	if call.Done == nil {
		call.Done = make(chan *rpc.Call, 10)
	}
	select {
	case call.Done <- call:
	default:
	}
	return call
}

func (f *fakeRT) Go(addr, serviceMethod string, args interface{}, reply interface{}, done chan *rpc.Call) *rpc.Call {
	call := &rpc.Call{ServiceMethod: serviceMethod, Args: args, Reply: reply, Done: done}
	if call.Done == nil {
		call.Done = make(chan *rpc.Call, 10)
	}
	_, err := f.arrive(addr, "go")
	call.Error = err
	select {
	case call.Done <- call:
	default:
	}
	return call
}

func (f *fakeRT) Call(addr, serviceMethod string, args interface{}, reply interface{}) error {
	_, err := f.arrive(addr, "call")
	return err
}

func (f *fakeRT) CallWithContext(ctx context.Context, addr string, serviceMethod string, args interface{}, reply interface{}) error {
	_, err := f.arrive(addr, "ctx")
	return err
}

type nopStream struct{}

func (nopStream) WriteMessage(m interface{}) error          { return nil }
func (nopStream) ReadMessage(b []byte, m interface{}) error { return rpc.ErrStreamShutdown }
func (nopStream) Close() error                              { return nil }

func (f *fakeRT) NewStream(addr, key string) (rpc.Stream, error) {
	_, err := f.arrive(addr, "stream")
	if err != nil {
		return nil, err
	}
	return nopStream{}, nil
}

func (f *fakeRT) Ping(addr string) error {
	_, err := f.arrive(addr, "ping")
	return err
}

func (f *fakeRT) Close() error {
	f.closed++
	return nil
}

func (w *World) listOf(idx int) []string {
	var out []string
	for _, t := range w.P.Lists[idx] {
		if t < 0 {
			out = append(out, "")
		} else {
			out = append(out, targetAddr(t))
		}
	}
	return out
}

// RunClientWorld is the main goroutine of the Client scenarios.
func (w *World) RunClientWorld() {
	p := w.P
	cs := &cState{callerStart: map[string]*routeRec{}}
	w.CS = cs
	cs.rt = &fakeRT{w: w}
	cs.initial = w.listOf(0)
	c := rpc.NewClient(nil, cs.initial...)
	c.Transport = cs.rt
	c.Scheduling = rpc.Scheduling(p.Params["sched"])
	if v := p.Params["tick_ms"]; v > 0 {
		c.Tick = time.Duration(v) * time.Millisecond
	}
	if v := p.Params["alpha"]; v > 0 {
		c.Alpha = float64(v) / 1000
	}
	if v := p.Params["dialtimeout_ms"]; v > 0 {
		c.DialTimeout = time.Duration(v) * time.Millisecond
	}
	if p.Params["director"] > 0 {
		cs.director = targetAddr(p.Params["director"] - 1)
		n := 0
		c.Director = func() string {
			n++
			if n%3 == 0 {
				return "" // an empty result falls back to scheduling
			}
			return cs.director
		}
	}
	cs.C = c
	if v := p.Params["warmup_ms"]; v > 0 {
		simrt.Sleep(time.Duration(v) * time.Millisecond)
	}
	w.active = len(p.Clients)
	for ci := range p.Clients {
		ci := ci
		simrt.Go(fmt.Sprintf("harness.ccaller.%d", ci), func() {
			defer func() {
				w.active--
				w.joinQ.WakeAll()
			}()
			w.runCCaller(ci)
		})
	}
	deadline := simrt.Now() + joinGrace
	for w.active > 0 {
		left := deadline - simrt.Now()
		if left <= 0 {
			w.Probe("join-timeout")
			break
		}
		simrt.ParkTimeout(&w.joinQ, left)
	}
	w.TearingDown = true
	w.watchTeardown()
	if !cs.closed {
		cs.closeInvoke = simrt.Seq()
		cs.closeT = simrt.Now()
		c.Close()
		cs.closeReturn = simrt.Seq()
		cs.closed = true
	}
	simrt.Sleep(quietGrace)
	w.SimEnd = simrt.Now()
	w.LiveAtEnd = simrt.Live()
}

func (w *World) runCCaller(ci int) {
	cs := w.CS
	c := cs.C
	cp := &w.P.Clients[ci]
	gid := simrt.Self()
	for oi := range cp.Ops {
		op := &cp.Ops[oi]
		begin := func(form string) *cCallRec {
			r := &cCallRec{Caller: ci, Form: form, Start: simrt.Seq(), StartT: simrt.Now()}
			cs.results = append(cs.results, r)
			cs.callerStart[gid] = &routeRec{Start: r.Start, StartT: r.StartT, Caller: ci}
			return r
		}
		end := func(r *cCallRec, err error) {
			r.End, r.EndT, r.Returned = simrt.Seq(), simrt.Now(), true
			if err != nil {
				r.Err = err.Error()
			}
			r.ErrKind = errKind(err)
			// the route this call produced (if any)
			for i := len(cs.routes) - 1; i >= 0; i-- {
				if rr := cs.routes[i]; rr.User && rr.Caller == ci && rr.Start == r.Start {
					r.Route = rr
					break
				}
			}
			delete(cs.callerStart, gid)
		}
		var m, rep Msg
		switch op.Kind {
		case "call":
			r := begin("call")
			end(r, c.Call("Svc.Echo", &m, &rep))
		case "ctx":
			r := begin("ctx")
			end(r, c.CallWithContext(context.Background(), "Svc.Echo", &m, &rep))
		case "ping":
			r := begin("ping")
			end(r, c.Ping())
		case "stream":
			r := begin("stream")
			_, err := c.NewStream("St0.Run")
			end(r, err)
		case "go":
			r := begin("go")
			done := make(chan *rpc.Call, 2)
			c.Go("Svc.Echo", &m, &rep, done)
			got := <-done
			simrt.YieldKind(simrt.KHarness)
			end(r, got.Error)
		case "rt":
			r := begin("rt")
			call := &rpc.Call{ServiceMethod: "Svc.Echo", Args: &m, Reply: &rep, Done: make(chan *rpc.Call, 2)}
			c.RoundTrip(call)
			got := <-call.Done
			simrt.YieldKind(simrt.KHarness)
			end(r, got.Error)
		case "sleep":
			simrt.Sleep(time.Duration(op.N) * time.Microsecond)
		case "spin":
			for i := 0; i < op.N; i++ {
				simrt.Gosched()
			}
		case "update":
			u := updateRec{List: w.listOf(op.List), Invoke: simrt.Seq(), InvokeT: simrt.Now()}
			c.Update(u.List...)
			u.Return = simrt.Seq()
			cs.updates = append(cs.updates, u)
		case "fallback":
			c.Fallback(time.Duration(op.N) * time.Microsecond)
			w.Probe("fallback")
		case "close":
			if !cs.closed {
				cs.closed = true
				cs.closeInvoke = simrt.Seq()
				cs.closeT = simrt.Now()
				c.Close()
				cs.closeReturn = simrt.Seq()
			}
		}
	}
}

// ------------------------------------------------------------------ generators

func genCBase(r *simrt.Rand, name string, nt int) *Plan {
	p := &Plan{Scenario: name, Sim: genSim(r)}
	p.Sim.MaxSteps = 400000
	p.Params = map[string]int{}
	for i := 0; i < nt; i++ {
		p.Targets = append(p.Targets, TargetPlan{Up: [][2]int{{0, 1}}, Lat: [][2]int{{0, 0}}})
	}
	return p
}

func allTargets(n int) []int {
	l := make([]int, n)
	for i := range l {
		l[i] = i
	}
	return l
}

var cForms = []string{"call", "ctx", "ping", "go", "rt", "stream"}

// ------------------------------------------------------------------ C16

func genC16(r *simrt.Rand, tier string, idx uint64) *Plan {
	nt := 2 + r.Intn(5)
	p := genCBase(r, "c16", nt)
	p.Params["sched"] = r.Intn(3)
	p.Params["tick_ms"] = []int{10, 100, 500}[r.Intn(3)]
	p.Params["dialtimeout_ms"] = 3000
	// health flaps
	for i := range p.Targets {
		if r.Chance(1, 3) {
			t := 0
			up := 1
			for k := 0; k < 1+r.Intn(4); k++ {
				t += 100 + r.Intn(1500)
				up = 1 - up
				p.Targets[i].Up = append(p.Targets[i].Up, [2]int{t, up})
			}
		}
		if r.Chance(1, 2) {
			p.Targets[i].Lat = [][2]int{{0, r.Intn(3000)}}
		}
	}
	// target lists: initial, then updates (grow, shrink, replace, duplicates, empty strings)
	mk := func() []int {
		var l []int
		n := r.Intn(nt + 1)
		for k := 0; k < n; k++ {
			l = append(l, r.Intn(nt))
		}
		if r.Chance(1, 4) {
			l = append(l, -1)
		}
		if r.Chance(1, 4) && len(l) > 0 {
			l = append(l, l[0])
		}
		return l
	}
	p.Lists = append(p.Lists, allTargets(nt)[:1+r.Intn(nt)])
	for k := 0; k < 1+r.Intn(4); k++ {
		p.Lists = append(p.Lists, mk())
	}
	if r.Chance(1, 4) {
		p.Params["director"] = 1 + r.Intn(nt)
	}
	p.Params["warmup_ms"] = []int{0, 50, 300}[r.Intn(3)]
	// callers
	nc := 1 + r.Intn(5)
	for c := 0; c < nc; c++ {
		cp := ClientPlan{}
		for i := 0; i < 2+r.Intn(7); i++ {
			switch r.Intn(8) {
			case 0:
				cp.Ops = append(cp.Ops, Op{Kind: "sleep", N: r.Intn(400000)})
			case 1:
				cp.Ops = append(cp.Ops, Op{Kind: "spin", N: r.Intn(10)})
			default:
				cp.Ops = append(cp.Ops, Op{Kind: cForms[r.Intn(len(cForms))]})
			}
		}
		p.Clients = append(p.Clients, cp)
	}
	// the updater
	up := ClientPlan{}
	cur := p.Params["warmup_ms"] * 1000 // µs since the Client was created (its detector ticks from then)
	tickUS := p.Params["tick_ms"] * 1000
	for k := 1; k < len(p.Lists); k++ {
		sl := r.Intn(600000)
		if prev := p.Lists[k-1]; r.Chance(1, 2) && len(prev) > 0 && prev[0] >= 0 {
			// Update at the very instant a probe of a target of the previous list completes: the targets
			// installed by the previous Update are probed at the next detector tick and answer after
			// their scripted latency
			i := prev[r.Intn(len(prev))]
			if i < 0 {
				i = prev[0]
			}
			at := (cur+tickUS-1)/tickUS*tickUS + p.Targets[i].Lat[0][1]
			for at <= cur {
				at += tickUS
			}
			sl = at - cur
		}
		cur += sl
		up.Ops = append(up.Ops, Op{Kind: "sleep", N: sl}, Op{Kind: "spin", N: r.Intn(4)}, Op{Kind: "update", List: k})
	}
	p.Clients = append(p.Clients, up)
	// callers that start right after an Update
	if r.Chance(1, 2) {
		cp := ClientPlan{Ops: []Op{{Kind: "sleep", N: cur - p.Params["warmup_ms"]*1000}, {Kind: "spin", N: 2 + r.Intn(8)}}}
		for i := 0; i < 2+r.Intn(4); i++ {
			cp.Ops = append(cp.Ops, Op{Kind: cForms[r.Intn(len(cForms))]}, Op{Kind: "sleep", N: r.Intn(20000)})
		}
		p.Clients = append(p.Clients, cp)
	}
	return p
}

type c16In struct {
	update bool
	list   string // normalised set, comma separated
	addr   string
}

func normSet(l []string) string {
	m := map[string]bool{}
	for _, a := range l {
		if a != "" {
			m[a] = true
		}
	}
	var ks []string
	for k := range m {
		ks = append(ks, k)
	}
	sort.Strings(ks)
	return strings.Join(ks, ",")
}

func checkC16(w *World, run *simrt.Run) {
	cs := w.CS
	if cs == nil {
		return
	}
	model := porcupine.Model{
		Init: func() interface{} { return normSet(cs.initial) },
		Step: func(state, input, output interface{}) (bool, interface{}) {
			in := input.(c16In)
			if in.update {
				return true, in.list
			}
			for _, a := range strings.Split(state.(string), ",") {
				if a == in.addr {
					return true, state
				}
			}
			return false, state
		},
		Equal: func(a, b interface{}) bool { return a.(string) == b.(string) },
		DescribeOperation: func(input, output interface{}) string {
			in := input.(c16In)
			if in.update {
				return "Update(" + in.list + ")"
			}
			return "Route->" + in.addr
		},
	}
	var ops []porcupine.Operation
	for i, u := range cs.updates {
		ops = append(ops, porcupine.Operation{ClientId: 1000 + i, Input: c16In{update: true, list: normSet(u.List)}, Call: int64(u.Invoke), Return: int64(u.Return)})
	}
	n := 0
	for _, rr := range cs.routes {
		if !rr.User || rr.Addr == "" {
			continue // the detector's own probes and the library's error path are not sends
		}
		if cs.director != "" && rr.Addr == cs.director {
			w.Probe("director-route")
			continue
		}
		n++
		ops = append(ops, porcupine.Operation{ClientId: rr.Caller, Input: c16In{addr: rr.Addr}, Call: int64(rr.Start), Return: int64(rr.Arrive)})
	}
	w.Probes["routes-checked"] += n
	if len(ops) > 60 {
		w.Probe("history-too-long-skipped")
		return
	}
	res := porcupine.CheckOperationsTimeout(model, ops, 20*time.Second)
	switch res {
	case porcupine.Illegal:
		// find a concrete witness for the message
		detail := "history of Update/Route operations is not linearizable against the current-target-set model"
		for _, rr := range cs.routes {
			if !rr.User || rr.Addr == "" || rr.Addr == cs.director {
				continue
			}
			// sets that were current at some point in [Start, Arrive]
			ok := false
			cur := normSet(cs.initial)
			sets := []string{}
			for _, u := range cs.updates {
				if u.Return < rr.Start {
					cur = normSet(u.List)
				}
			}
			sets = append(sets, cur)
			for _, u := range cs.updates {
				if u.Invoke <= rr.Arrive && u.Return >= rr.Start {
					sets = append(sets, normSet(u.List))
				}
			}
			for _, s := range sets {
				for _, a := range strings.Split(s, ",") {
					if a == rr.Addr {
						ok = true
					}
				}
			}
			if !ok {
				detail = fmt.Sprintf("%s call of caller %d (events %d..%d) was routed to %s; target sets current during that interval: %v", rr.Form, rr.Caller, rr.Start, rr.Arrive, rr.Addr, sets)
				break
			}
		}
		w.Violate("C16.stale-route", "routed-to-non-current-target", detail)
	case porcupine.Unknown:
		w.Probe("linearizability-check-inconclusive")
	default:
		w.Probe("history-linearizable")
	}
}

// ------------------------------------------------------------------ C17

func genC17(r *simrt.Rand, tier string, idx uint64) *Plan {
	nt := 2 + r.Intn(8) // up to 9 live targets: a heap three levels deep
	p := genCBase(r, "c17", nt)
	p.Params["sched"] = int(idx % 3)
	p.Params["tick_ms"] = []int{10, 50, 100, 400, 2000}[r.Intn(5)]
	p.Params["alpha"] = []int{100, 500, 800, 950}[r.Intn(4)]
	p.Params["dialtimeout_ms"] = 3000
	p.Params["warmup_ms"] = 1500 // the live list is built and stable before measuring
	// some plans also configure targets that never come up: the live set stays stable, but the
	// Client keeps probing them and rebuilding its bookkeeping
	live := nt
	if idx%2 == 1 {
		for d := 0; d < 1+r.Intn(2); d++ {
			p.Targets = append(p.Targets, TargetPlan{Up: [][2]int{{0, 0}}, Lat: [][2]int{{0, 0}}})
		}
	}
	p.Params["live"] = live
	p.Lists = [][]int{allTargets(len(p.Targets))}
	// latency profiles that change over time; distinct values (>= 1 µs apart)
	used := map[int]bool{}
	for i := range p.Targets[:live] {
		var lat [][2]int
		t := 0
		for k := 0; k < 1+r.Intn(3); k++ {
			v := 100 + r.Intn(5000)
			for used[v] {
				v++
			}
			used[v] = true
			lat = append(lat, [2]int{t, v})
			t += 1600 + r.Intn(3000)
		}
		p.Targets[i].Lat = lat
	}
	if idx%4 == 3 && live >= 3 {
		// one live target starts refusing in the middle of the run: the call that finds out resets its
		// estimate to the maximum at once, so that it is not picked as minimal while the detector has
		// not yet taken it out
		down := 1600 + r.Intn(2500)
		p.Targets[r.Intn(live)].Up = [][2]int{{0, 1}, {down, 0}}
		p.Params["down_ms"] = down
	}
	cp := ClientPlan{}
	n := 10 + r.Intn(50)
	if p.Params["down_ms"] > 0 {
		n += 30
	}
	for i := 0; i < n; i++ {
		form := []string{"call", "ctx", "ping", "stream"}[r.Intn(4)]
		if p.Params["sched"] != 2 && r.Chance(1, 3) {
			form = []string{"go", "rt"}[r.Intn(2)]
		}
		cp.Ops = append(cp.Ops, Op{Kind: form})
		if r.Chance(1, 3) {
			cp.Ops = append(cp.Ops, Op{Kind: "sleep", N: r.Intn(150000)})
		}
	}
	p.Clients = []ClientPlan{cp}
	if idx%4 == 1 && p.Params["sched"] == 2 {
		// routing is paused for a while in the middle of the run: the caller waits inside the Client;
		// that wait is not part of any call's duration
		p.Clients = append(p.Clients, ClientPlan{Ops: []Op{{Kind: "sleep", N: 1000 * (100 + r.Intn(1500))}, {Kind: "fallback", N: 1000 * (100 + r.Intn(900))}}})
	}
	return p
}

func checkC17(w *World, run *simrt.Run) {
	cs := w.CS
	if cs == nil {
		return
	}
	nt := len(w.P.Targets)
	if l := w.P.Params["live"]; l > 0 {
		nt = l // targets beyond the live ones never come up
	}
	var routes []*routeRec
	for _, rr := range cs.routes {
		if rr.User {
			routes = append(routes, rr)
		}
	}
	for _, rr := range routes {
		if i := w.targetIdx(rr.Addr); i >= nt {
			w.Violate("C17.dead-target", "routed-to-dead-target", fmt.Sprintf("%s call routed to %s, which never was live", rr.Form, rr.Addr))
			return
		}
	}
	for _, rr := range routes {
		if w.targetIdx(rr.Addr) < 0 {
			w.Violate("C17.not-a-target", "routed-to-unknown-address", fmt.Sprintf("%s call routed to %q", rr.Form, rr.Addr))
			return
		}
	}
	// with a target that starts refusing, the rotation oracles apply to the calls before that moment
	stable := len(routes)
	if d := w.P.Params["down_ms"]; d > 0 {
		for i, rr := range routes {
			if rr.ArriveT >= time.Duration(d)*time.Millisecond {
				stable = i
				break
			}
		}
	}
	switch w.P.Params["sched"] {
	case 0: // round robin: any n consecutive calls hit n distinct targets
		for i := 0; i+nt <= stable; i++ {
			seen := map[string]bool{}
			for _, rr := range routes[i : i+nt] {
				seen[rr.Addr] = true
			}
			if len(seen) != nt {
				var seq []string
				for _, rr := range routes[i : i+nt] {
					seq = append(seq, rr.Addr)
				}
				w.Violate("C17.round-robin", "round-robin-window-not-distinct", fmt.Sprintf("%d consecutive calls starting at call %d went to %v (%d live targets)", nt, i, seq, nt))
				return
			}
		}
		w.Probes["round-robin-windows"] += len(routes)
	case 1:
		w.Probes["random-picks"] += len(routes)
	case 2:
		// reference model of the documented EWMA
		alpha := float64(w.P.Params["alpha"]) / 1000
		tick := time.Duration(w.P.Params["tick_ms"]) * time.Millisecond
		maxLat := int64(time.Minute)
		est := make([]int64, nt)
		for i := range est {
			est[i] = maxLat
		}
		lastNonMin := time.Duration(-1)
		// probes: the first call issued more than Tick after the previous probe is sent to the next
		// target in rotation, whatever the estimates say: any n consecutive probes reach n distinct
		// targets (the live set is stable)
		lastProbe := time.Duration(-1)
		var probes []string
		for k, rr := range routes {
			if lastProbe < 0 || rr.ArriveT-lastProbe > tick {
				lastProbe = rr.ArriveT
				probes = append(probes, rr.Addr)
				if n := len(probes); n >= nt && k < stable {
					seen := map[string]bool{}
					for _, a := range probes[n-nt:] {
						seen[a] = true
					}
					if len(seen) != nt {
						w.Violate("C17.least-time", "probes-not-in-rotation", fmt.Sprintf("the last %d probes (first call after each Tick of %v, latest at %v) went to %v: not %d distinct targets", nt, tick, rr.ArriveT, probes[n-nt:], nt))
						return
					}
					w.Probe("least-time-probe-window")
				}
			}
			ti := w.targetIdx(rr.Addr)
			min := int64(math.MaxInt64)
			for _, e := range est {
				if e < min {
					min = e
				}
			}
			if est[ti] > min+4 {
				// not a minimal target: must be a probe, and probes are at least Tick apart
				if lastNonMin >= 0 && rr.ArriveT-lastNonMin < tick {
					w.Violate("C17.least-time", "non-minimal-target-without-probe-slot", fmt.Sprintf("call %d at %v went to %s (estimate %d ns, minimum %d ns) although the previous probe was at %v and Tick is %v", k, rr.ArriveT, rr.Addr, est[ti], min, lastNonMin, tick))
					return
				}
				lastNonMin = rr.ArriveT
				w.Probe("least-time-probe")
			} else {
				w.Probe("least-time-minimal-pick")
			}
			// estimate update: the Client measures the scripted latency exactly on the fake clock
			d := int64(rr.EndT - rr.ArriveT)
			if rr.Form == "go" || rr.Form == "rt" {
				continue
			}
			if rr.ErrKind == "dial" {
				est[ti] = maxLat // unreachable: reset to the maximum
				w.Probe("least-time-target-found-unreachable")
				continue
			}
			if est[ti] >= maxLat {
				est[ti] = d
			} else {
				est[ti] = int64(float64(est[ti])*alpha + float64(d)*(1-alpha))
			}
		}
	}
}

// ------------------------------------------------------------------ C18

func genC18(r *simrt.Rand, tier string, idx uint64) *Plan {
	nt := 1 + r.Intn(4)
	p := genCBase(r, "c18", nt)
	p.Params["sched"] = r.Intn(3)
	p.Params["tick_ms"] = 100
	dt := []int{50, 200, 1000, 5000}[r.Intn(4)]
	p.Params["dialtimeout_ms"] = dt
	p.Lists = [][]int{allTargets(nt)}
	mode := idx % 8
	p.Params["mode"] = int(mode)
	switch mode {
	case 4: // swap: one target starts refusing while another, so far dead, recovers at about the same time
		for len(p.Targets) < 3 {
			p.Targets = append(p.Targets, TargetPlan{Up: [][2]int{{0, 1}}, Lat: [][2]int{{0, 0}}})
		}
		nt = len(p.Targets)
		p.Lists = [][]int{allTargets(nt)}
		swap := 600 + r.Intn(2000)
		back := swap + 2500 + r.Intn(2500)
		p.Targets[1].Up = [][2]int{{0, 1}, {swap, 0}, {back, 1}}
		p.Targets[2].Up = [][2]int{{0, 0}, {swap - 80 + r.Intn(160), 1}}
		if r.Chance(1, 3) {
			// a refused probe takes a little while (the successful one is immediate)
			p.Params["refuse_us"] = 1000 * (1 + r.Intn(40))
		}
		p.Params["blocking_only"] = 1
		p.Params["warmup_ms"] = 300
		for c := 0; c < 1+r.Intn(3); c++ {
			cp := ClientPlan{}
			t := 0
			for t < back+3000 {
				cp.Ops = append(cp.Ops, Op{Kind: []string{"call", "ctx", "ping", "stream"}[r.Intn(4)]})
				gap := 10 + r.Intn(120)
				cp.Ops = append(cp.Ops, Op{Kind: "sleep", N: gap * 1000})
				t += gap
			}
			p.Clients = append(p.Clients, cp)
		}
	case 0: // failover: one target refuses for a while, another stays healthy
		if nt < 2 {
			nt = 2
			p.Targets = append(p.Targets, TargetPlan{Up: [][2]int{{0, 1}}, Lat: [][2]int{{0, 0}}})
			p.Lists = [][]int{allTargets(nt)}
		}
		down := 500 + r.Intn(2000)
		back := down + 2500 + r.Intn(3000)
		p.Targets[0].Up = [][2]int{{0, 1}, {down, 0}, {back, 1}}
		p.Params["down_ms"], p.Params["back_ms"] = down, back
		p.Params["blocking_only"] = b2i(r.Chance(2, 3))
		ncallers := 1 + r.Intn(3)
		if r.Chance(1, 3) {
			// the target answers slowly before it goes away: calls routed to it while it was up
			// complete (successfully) only after it has been found refusing and taken out
			p.Targets[0].Lat = [][2]int{{0, 1000 * (200 + r.Intn(1300))}, {down, 0}}
			ncallers = 2 + r.Intn(3)
		}
		for c := 0; c < ncallers; c++ {
			cp := ClientPlan{}
			t := 0
			for t < back+3000 {
				forms := cForms
				if p.Params["blocking_only"] == 1 {
					forms = []string{"call", "ctx", "ping", "stream"}
				}
				cp.Ops = append(cp.Ops, Op{Kind: forms[r.Intn(len(forms))]})
				gap := 20 + r.Intn(300)
				cp.Ops = append(cp.Ops, Op{Kind: "sleep", N: gap * 1000})
				t += gap
			}
			p.Clients = append(p.Clients, cp)
		}
		p.Params["warmup_ms"] = 300
	case 1: // all down, then one comes up: waiters are released; or nobody comes up: timeout
		up := 100 + r.Intn(2*dt+500)
		comes := r.Chance(2, 3)
		for i := range p.Targets {
			p.Targets[i].Up = [][2]int{{0, 0}}
		}
		if comes {
			p.Targets[r.Intn(nt)].Up = [][2]int{{0, 0}, {up, 1}}
			p.Params["up_ms"] = up
		}
		for c := 0; c < 1+r.Intn(8); c++ {
			p.Clients = append(p.Clients, ClientPlan{Ops: []Op{{Kind: "sleep", N: r.Intn(50) * 1000}, {Kind: cForms[r.Intn(len(cForms))]}}})
		}
		if r.Chance(1, 2) {
			// callers spread over the whole outage: some give up on their own (DialTimeout) while
			// others, older and younger, are still parked when the target comes up
			for c := 0; c < 2+r.Intn(5); c++ {
				p.Clients = append(p.Clients, ClientPlan{Ops: []Op{{Kind: "sleep", N: r.Intn(up+1) * 1000}, {Kind: cForms[r.Intn(len(cForms))]}}})
			}
		}
		if comes {
			// callers that arrive at the very instant the detector's probe finds the target up
			// (registration races the release of the waiters)
			tickAt := (up + 99) / 100 * 100
			for c := 0; c < r.Intn(4); c++ {
				p.Clients = append(p.Clients, ClientPlan{Ops: []Op{{Kind: "sleep", N: tickAt * 1000}, {Kind: "spin", N: r.Intn(8)}, {Kind: cForms[r.Intn(len(cForms))]}}})
			}
		}
	case 2: // Close while callers wait
		for i := range p.Targets {
			p.Targets[i].Up = [][2]int{{0, 0}}
		}
		for c := 0; c < 1+r.Intn(8); c++ {
			p.Clients = append(p.Clients, ClientPlan{Ops: []Op{{Kind: "spin", N: r.Intn(12)}, {Kind: cForms[r.Intn(len(cForms))]}, {Kind: cForms[r.Intn(len(cForms))]}}})
		}
		closeAt := r.Intn(dt) * 1000 / 2 // µs
		p.Clients = append(p.Clients, ClientPlan{Ops: []Op{{Kind: "spin", N: r.Intn(30)}, {Kind: "sleep", N: closeAt}, {Kind: "spin", N: r.Intn(6)}, {Kind: "close"}, {Kind: "sleep", N: 10000}, {Kind: cForms[r.Intn(len(cForms))]}}})
		// callers that start their call at the very instant of the Close: registration races Close
		for c := 0; c < r.Intn(5); c++ {
			p.Clients = append(p.Clients, ClientPlan{Ops: []Op{{Kind: "sleep", N: closeAt}, {Kind: "spin", N: r.Intn(10)}, {Kind: cForms[r.Intn(len(cForms))]}}})
		}
		if r.Chance(1, 3) {
			// routing paused although a target may be live: callers go straight to the waiter table
			p.Targets[0].Up = [][2]int{{0, 1}}
			p.Clients = append(p.Clients, ClientPlan{Ops: []Op{{Kind: "fallback", N: (dt + 1000) * 1000}}})
		}
	case 7: // no target live; one comes up in the middle of a Fallback pause
		dt = 5000
		p.Params["dialtimeout_ms"] = dt
		for i := range p.Targets {
			p.Targets[i].Up = [][2]int{{0, 0}}
		}
		from := 200 + r.Intn(400)
		length := 600 + r.Intn(900)
		up := from + 100 + r.Intn(length-200)
		p.Targets[r.Intn(nt)].Up = [][2]int{{0, 0}, {up, 1}}
		p.Params["up_ms"], p.Params["fb_end_ms"] = up, from+length
		p.Clients = append(p.Clients, ClientPlan{Ops: []Op{{Kind: "sleep", N: from * 1000}, {Kind: "fallback", N: length * 1000}}})
		for c := 0; c < 2+r.Intn(5); c++ {
			p.Clients = append(p.Clients, ClientPlan{Ops: []Op{{Kind: "sleep", N: r.Intn(from+length) * 1000}, {Kind: cForms[r.Intn(len(cForms))]}}})
		}
		for c := 0; c < 1+r.Intn(3); c++ {
			p.Clients = append(p.Clients, ClientPlan{Ops: []Op{{Kind: "sleep", N: (from + length + 1200 + r.Intn(800)) * 1000}, {Kind: cForms[r.Intn(len(cForms))]}}})
		}
	case 6: // every target starts refusing at about the same time (refusals may be slow), later one recovers
		for len(p.Targets) < 2 {
			p.Targets = append(p.Targets, TargetPlan{Up: [][2]int{{0, 1}}, Lat: [][2]int{{0, 0}}})
		}
		nt = len(p.Targets)
		p.Lists = [][]int{allTargets(nt)}
		down := 600 + r.Intn(1500)
		back := down + 1500 + r.Intn(2500)
		for i := range p.Targets {
			p.Targets[i].Up = [][2]int{{0, 1}, {down + r.Intn(150), 0}}
		}
		x := r.Intn(nt)
		p.Targets[x].Up = append(p.Targets[x].Up, [2]int{back, 1})
		p.Params["back_ms"] = back
		p.Params["refuse_us"] = []int{0, 0, 20000, 60000, 140000}[r.Intn(5)]
		p.Params["warmup_ms"] = 300
		for c := 0; c < 2+r.Intn(3); c++ {
			cp := ClientPlan{}
			t := 0
			for t < back+2500 {
				cp.Ops = append(cp.Ops, Op{Kind: []string{"call", "ctx", "ping", "stream"}[r.Intn(4)]})
				gap := 10 + r.Intn(120)
				cp.Ops = append(cp.Ops, Op{Kind: "sleep", N: gap * 1000})
				t += gap
			}
			p.Clients = append(p.Clients, cp)
		}
	case 5: // a DialTimeout expiring at the instant of a recovery, then a second episode without any live target
		if dt == 50 {
			dt = 200
			p.Params["dialtimeout_ms"] = dt
		}
		for i := range p.Targets {
			p.Targets[i].Up = [][2]int{{0, 0}}
		}
		s1 := 100 * r.Intn(3)                // first callers start on a detector tick ...
		up := s1 + dt - 1 - r.Intn(99)       // ... so their timers fire at the tick whose probe finds the target up
		dn := up + 200 + r.Intn(600)
		x := r.Intn(nt)
		p.Targets[x].Up = [][2]int{{0, 0}, {up, 1}, {dn, 0}}
		p.Params["up_ms"], p.Params["down_ms"] = up, dn
		for c := 0; c < 1+r.Intn(4); c++ {
			p.Clients = append(p.Clients, ClientPlan{Ops: []Op{{Kind: "sleep", N: s1 * 1000}, {Kind: "spin", N: r.Intn(4)}, {Kind: cForms[r.Intn(len(cForms))]}}})
		}
		// callers still waiting at the recovery (they are released by it)
		for c := 0; c < r.Intn(4); c++ {
			p.Clients = append(p.Clients, ClientPlan{Ops: []Op{{Kind: "sleep", N: (s1 + 20 + r.Intn(dt)) * 1000}, {Kind: cForms[r.Intn(len(cForms))]}}})
		}
		// after the target has gone again the target list is installed anew (Update starts every target
		// as not yet probed), so that from here on the Client has no live target ...
		p.Clients = append(p.Clients, ClientPlan{Ops: []Op{{Kind: "sleep", N: (dn + 50) * 1000}, {Kind: "update", List: 0}}})
		// ... and callers have to wait out their DialTimeout
		for c := 0; c < 2+r.Intn(6); c++ {
			p.Clients = append(p.Clients, ClientPlan{Ops: []Op{{Kind: "sleep", N: (dn + 100 + r.Intn(500)) * 1000}, {Kind: cForms[r.Intn(len(cForms))]}}})
		}
	case 3: // Fallback pauses routing although targets are live
		fb := 100 + r.Intn(dt+500)
		p.Params["fallback_ms"] = fb
		p.Params["warmup_ms"] = 300
		p.Clients = append(p.Clients, ClientPlan{Ops: []Op{{Kind: "fallback", N: fb * 1000}}})
		for c := 0; c < 1+r.Intn(5); c++ {
			p.Clients = append(p.Clients, ClientPlan{Ops: []Op{{Kind: "sleep", N: (1 + r.Intn(50)) * 1000}, {Kind: cForms[r.Intn(len(cForms))]}}})
		}
		// callers that arrive at the very instant the pause ends (registration races the release)
		for c := 0; c < r.Intn(4); c++ {
			p.Clients = append(p.Clients, ClientPlan{Ops: []Op{{Kind: "sleep", N: fb * 1000}, {Kind: "spin", N: r.Intn(8)}, {Kind: cForms[r.Intn(len(cForms))]}}})
		}
		// callers that arrive well after the pause has ended: routing is back to normal
		for c := 0; c < 1+r.Intn(3); c++ {
			p.Clients = append(p.Clients, ClientPlan{Ops: []Op{{Kind: "sleep", N: (fb + 1200 + r.Intn(800)) * 1000}, {Kind: cForms[r.Intn(len(cForms))]}}})
		}
	}
	return p
}

func checkC18(w *World, run *simrt.Run) {
	cs := w.CS
	if cs == nil {
		return
	}
	p := w.P
	dt := time.Duration(p.Params["dialtimeout_ms"]) * time.Millisecond
	const bound = time.Second // 10x the detector period, plus scripted ping latency (0 here)
	for _, r := range cs.results {
		if !r.Returned {
			w.Violate("C18.stranded", "caller-stranded:"+r.Form, fmt.Sprintf("caller %d %s started at %v never returned", r.Caller, r.Form, r.StartT))
			continue
		}
		took := r.EndT - r.StartT
		if r.Route != nil {
			took -= r.Route.EndT - r.Route.ArriveT // scripted latency of the target it was routed to
		}
		if took > dt+bound {
			w.Violate("C18.waits-too-long", "waited-longer-than-dial-timeout:"+r.Form, fmt.Sprintf("caller %d %s waited %v, DialTimeout is %v", r.Caller, r.Form, took, dt))
		}
	}
	switch p.Params["mode"] {
	case 0, 4:
		w.checkFailover(bound)
	case 1:
		up := time.Duration(p.Params["up_ms"]) * time.Millisecond
		for _, r := range cs.results {
			if !r.Returned {
				continue
			}
			took := r.EndT - r.StartT
			if p.Params["up_ms"] > 0 && r.StartT >= up && r.StartT+dt > r.StartT+bound {
				// the target is already up when this caller arrives: routed, or parked and released,
				// within the detection bound
				if r.Err != "" || r.EndT > r.StartT+bound {
					w.Violate("C18.wake", "caller-arriving-after-target-became-live-not-served:"+r.Form, fmt.Sprintf("caller %d %s started %v, target live since %v, returned %q at %v (DialTimeout %v)", r.Caller, r.Form, r.StartT, up, r.Err, r.EndT, dt))
				} else {
					w.Probe("late-arrival-served")
				}
				continue
			}
			if p.Params["up_ms"] > 0 && r.StartT+dt > up+bound {
				// a target became live before this caller's DialTimeout: released within the bound
				if r.EndT > up+bound && r.StartT < up {
					w.Violate("C18.wake", "waiter-not-released-when-target-became-live:"+r.Form, fmt.Sprintf("caller %d %s started %v, target live at %v, returned %v (err %q)", r.Caller, r.Form, r.StartT, up, r.EndT, r.Err))
				} else if r.Err == "" {
					w.Probe("waiter-released-by-live-target")
				}
				if r.Err != "" && r.StartT < up {
					w.Violate("C18.wake", "released-waiter-failed:"+r.Form+":"+r.ErrKind, fmt.Sprintf("caller %d %s: target live at %v before the DialTimeout of this caller, got %q", r.Caller, r.Form, up, r.Err))
				}
			} else if p.Params["up_ms"] == 0 || r.StartT+dt < up {
				// nobody live before the timeout: fails exactly at DialTimeout
				if r.Err == "" {
					w.Violate("C18.timeout", "call-succeeded-without-live-target:"+r.Form, fmt.Sprintf("caller %d %s", r.Caller, r.Form))
				} else if took != dt {
					w.Violate("C18.timeout", "timeout-not-at-dial-timeout:"+r.Form, fmt.Sprintf("caller %d %s returned after %v, DialTimeout %v", r.Caller, r.Form, took, dt))
				} else if (r.Form == "call" || r.Form == "ctx") && r.ErrKind != "timeout" {
					w.Violate("C18.timeout", "wrong-timeout-error:"+r.Form, fmt.Sprintf("caller %d %s got %q, want ErrTimeout", r.Caller, r.Form, r.Err))
				} else {
					w.Probe("timed-out-at-dial-timeout")
				}
			}
		}
	case 2:
		if cs.closeReturn == 0 {
			return
		}
		for _, r := range cs.results {
			if !r.Returned {
				continue
			}
			switch {
			case r.Start < cs.closeInvoke && r.End > cs.closeReturn:
				// was waiting when Close ran: released at once with ErrShutdown
				if r.Err == "" {
					w.Probe("call-in-flight-across-close-succeeded")
				} else if r.EndT != cs.closeT && r.EndT-r.StartT != dt {
					w.Violate("C18.close", "waiter-not-released-by-close:"+r.Form, fmt.Sprintf("caller %d %s: Close at %v, returned %v", r.Caller, r.Form, cs.closeT, r.EndT))
				} else if r.Err == "" {
					// it was not waiting: it had been routed and was in flight in the transport
					w.Probe("call-in-flight-across-close-succeeded")
				} else if (r.Form == "call" || r.Form == "ctx") && r.ErrKind != "shutdown" && r.EndT == cs.closeT && r.EndT-r.StartT != dt {
					w.Violate("C18.close", "wrong-error-after-close:"+r.Form, fmt.Sprintf("caller %d %s got %q, want ErrShutdown", r.Caller, r.Form, r.Err))
				} else {
					w.Probe("waiter-released-by-close")
				}
			case r.Start >= cs.closeInvoke && r.Start <= cs.closeReturn:
				// started while Close was running: either sees the closed Client at once or is released by it
				if r.EndT != cs.closeT {
					w.Violate("C18.close", "caller-racing-close-stranded:"+r.Form, fmt.Sprintf("caller %d %s started while Close was running (at %v) and returned only at %v (DialTimeout %v, err %q)", r.Caller, r.Form, cs.closeT, r.EndT, dt, r.Err))
				} else {
					w.Probe("caller-racing-close-released")
				}
			case r.Start > cs.closeReturn:
				if r.EndT != r.StartT {
					w.Violate("C18.close", "call-after-close-not-immediate:"+r.Form, fmt.Sprintf("caller %d %s after Close took %v", r.Caller, r.Form, r.EndT-r.StartT))
				} else if r.Err == "" {
					w.Violate("C18.close", "call-after-close-succeeded:"+r.Form, fmt.Sprintf("caller %d", r.Caller))
				} else if (r.Form == "call" || r.Form == "ctx") && r.ErrKind != "shutdown" {
					w.Violate("C18.close", "wrong-error-after-close:"+r.Form, fmt.Sprintf("caller %d %s got %q, want ErrShutdown", r.Caller, r.Form, r.Err))
				} else {
					w.Probe("call-after-close-failed-at-once")
				}
			}
		}
	case 7:
		// the target came up inside the pause: once the pause is over it is in rotation; everybody
		// whose DialTimeout allows it is served within the detection bound after that
		rel := time.Duration(p.Params["fb_end_ms"]) * time.Millisecond
		for _, r := range cs.results {
			if !r.Returned {
				continue
			}
			at := r.StartT
			if at < rel {
				at = rel
			}
			if r.StartT+dt <= at+bound {
				continue
			}
			if r.Err != "" || r.EndT > at+bound {
				w.Violate("C18.recovery", "target-recovered-during-fallback-not-used:"+r.Form, fmt.Sprintf("caller %d %s started %v; a target came up at %v inside a Fallback pause that ended at %v: returned %q at %v", r.Caller, r.Form, r.StartT, time.Duration(p.Params["up_ms"])*time.Millisecond, rel, r.Err, r.EndT))
				break
			}
			w.Probe("served-after-recovery-inside-fallback")
		}
	case 6:
		// one target is live again from back_ms on (the others stay away): once the detection bound
		// (plus the time a refused probe takes) has passed, every call succeeds again
		back := time.Duration(p.Params["back_ms"]) * time.Millisecond
		slack := bound + time.Duration(p.Params["refuse_us"])*time.Microsecond
		for _, r := range cs.results {
			if !r.Returned || r.StartT <= back+slack {
				continue
			}
			if r.Err != "" {
				w.Violate("C18.recovery", "call-fails-although-target-recovered:"+r.Form, fmt.Sprintf("caller %d %s started %v, a target is live again since %v, got %q after %v", r.Caller, r.Form, r.StartT, back, r.Err, r.EndT-r.StartT))
				break
			}
			w.Probe("call-succeeds-after-recovery")
		}
	case 5:
		// second episode: the target list was installed anew after the last target had gone for good;
		// no target is live and none comes up: every later caller waits exactly DialTimeout and fails
		if len(cs.updates) == 0 {
			break
		}
		upd := cs.updates[len(cs.updates)-1]
		for _, r := range cs.results {
			if !r.Returned || r.Start <= upd.Return {
				continue
			}
			took := r.EndT - r.StartT
			switch {
			case r.Err == "":
				w.Violate("C18.timeout", "call-succeeded-without-live-target:"+r.Form, fmt.Sprintf("caller %d %s started %v", r.Caller, r.Form, r.StartT))
			case took != dt:
				w.Violate("C18.timeout", "timeout-not-at-dial-timeout:"+r.Form, fmt.Sprintf("caller %d %s started %v (targets installed anew at %v, none live since %v) returned after %v with %q, DialTimeout %v", r.Caller, r.Form, r.StartT, upd.InvokeT, time.Duration(p.Params["down_ms"])*time.Millisecond, took, r.Err, dt))
			case (r.Form == "call" || r.Form == "ctx") && r.ErrKind != "timeout":
				w.Violate("C18.timeout", "wrong-timeout-error:"+r.Form, fmt.Sprintf("caller %d %s got %q, want ErrTimeout", r.Caller, r.Form, r.Err))
			default:
				w.Probe("second-episode-timed-out-at-dial-timeout")
			}
		}
	case 3:
		// Fallback: routing pauses for the duration although targets are live; callers wait and are
		// released once the pause ends (within the bound) or time out
		fb := time.Duration(p.Params["fallback_ms"]) * time.Millisecond
		fbEnd := time.Duration(p.Params["warmup_ms"])*time.Millisecond + fb
		for _, r := range cs.results {
			if !r.Returned {
				continue
			}
			if r.StartT > fbEnd+bound {
				// the pause is over (and every target is live): routed at once
				if r.Err != "" || r.EndT != r.StartT {
					w.Violate("C18.fallback", "routing-not-resumed-after-fallback:"+r.Form, fmt.Sprintf("caller %d %s started %v, the Fallback pause ended at %v: returned %q after %v", r.Caller, r.Form, r.StartT, fbEnd, r.Err, r.EndT-r.StartT))
				} else {
					w.Probe("routed-at-once-after-fallback")
				}
				continue
			}
			if r.StartT >= fbEnd && r.StartT+dt > r.StartT+bound {
				// arrives at the end of the pause or shortly after: routed, or parked and released by
				// the next detector tick
				if r.Err != "" || r.EndT > r.StartT+bound {
					w.Violate("C18.fallback", "caller-arriving-at-end-of-fallback-not-served:"+r.Form, fmt.Sprintf("caller %d %s started %v, the pause ended at %v: returned %q at %v (DialTimeout %v)", r.Caller, r.Form, r.StartT, fbEnd, r.Err, r.EndT, dt))
				} else {
					w.Probe("arrival-at-end-of-fallback-served")
				}
				continue
			}
			if r.StartT < fbEnd && r.StartT+dt > fbEnd+bound {
				if r.EndT > fbEnd+bound {
					w.Violate("C18.fallback", "waiter-not-released-after-fallback:"+r.Form, fmt.Sprintf("caller %d %s started %v, fallback ended %v, returned %v", r.Caller, r.Form, r.StartT, fbEnd, r.EndT))
				} else if r.Err != "" {
					w.Violate("C18.fallback", "waiter-failed-after-fallback:"+r.Form+":"+r.ErrKind, fmt.Sprintf("caller %d %s got %q", r.Caller, r.Form, r.Err))
				} else {
					w.Probe("released-after-fallback")
				}
			}
		}
	}
}

// checkFailover judges every down interval of every target: once a user call has been
// refused by a target, no user call is routed to it later than the detection bound
// (until it is back); and under RoundRobin a target that came (back) up is used again.
func (w *World) checkFailover(bound time.Duration) {
	cs := w.CS
	p := w.P
	lastUser := time.Duration(0)
	for _, rr := range cs.routes {
		if rr.User {
			lastUser = rr.ArriveT
		}
	}
	bound0 := bound
	for ti, tp := range p.Targets {
		addr := targetAddr(ti)
		// detection = the next detector tick plus the time its refused probe takes
		bound = bound0 + time.Duration(p.Params["refuse_us"])*time.Microsecond
		for k, e := range tp.Up {
			from := time.Duration(e[0]) * time.Millisecond
			until := time.Duration(1<<62 - 1)
			if k+1 < len(tp.Up) {
				until = time.Duration(tp.Up[k+1][0]) * time.Millisecond
			}
			if e[1] == 0 {
				// down in [from, until): the Client learns about it from refused calls; an answer the
				// target sent before it went away (a slow probe or call still in flight) may arrive
				// later and legitimately says "alive" again. So: after a refused user call that is not
				// followed by such a late success, no user call goes to the target later than the bound.
				for _, ref := range cs.routes {
					if !(ref.User && ref.Addr == addr && ref.ErrKind == "dial" && ref.ArriveT >= from && ref.ArriveT < until) {
						continue
					}
					w.Probe("target-refused")
					superseded := false
					for _, ok := range cs.routes {
						if ok.Addr == addr && ok.Err == "" && ok.EndT > ref.ArriveT && ok.EndT < until {
							superseded = true
							break
						}
					}
					if superseded {
						w.Probe("refusal-followed-by-a-late-answer")
						continue
					}
					found := false
					for _, rr := range cs.routes {
						if rr.User && rr.Addr == addr && rr.ArriveT > ref.ArriveT+bound && rr.ArriveT < until {
							sig := "refusing-target-still-used"
							if p.Params["blocking_only"] == 0 && p.Params["mode"] == 0 {
								sig += ":async-forms-in-mix"
							}
							w.Violate("C18.failover", sig, fmt.Sprintf("%s call at %v still routed to %s, which has refused since %v (a call was refused at %v and nothing it had sent earlier arrived after that; bound %v)", rr.Form, rr.ArriveT, rr.Addr, from, ref.ArriveT, bound))
							found = true
							break
						}
					}
					if found {
						break
					}
				}
			} else if from > 0 && p.Params["sched"] == 0 {
				// (back) up at `from`: round robin must use it again
				used, later := false, 0
				for _, rr := range cs.routes {
					if !rr.User || rr.ArriveT >= until {
						continue
					}
					if rr.ArriveT > from+bound {
						later++
					}
					if rr.Addr == addr && rr.ArriveT > from && rr.Err == "" {
						used = true
					}
				}
				if used {
					w.Probe("target-used-again-after-recovery")
				} else if later >= 2*len(p.Targets)+2 {
					w.Violate("C18.recovery", "recovered-target-not-used-again", fmt.Sprintf("%s came up at %v, %d round-robin calls were routed later than the detection bound after that (until %v), none to it", addr, from, later, lastUser))
				}
			}
		}
	}
}

func init() {
	register(&Scenario{Property: "C16", Name: "c16", Gen: genC16, Main: (*World).RunClientWorld, Check: checkC16})
	register(&Scenario{Property: "C17", Name: "c17", Gen: genC17, Main: (*World).RunClientWorld, Check: checkC17})
	register(&Scenario{Property: "C18", Name: "c18", Gen: genC18, Main: (*World).RunClientWorld, Check: checkC18})
}
