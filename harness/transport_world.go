package harness

import (
	"context"
	"fmt"
	"os"
	"runtime/debug"
	"time"

	"github.com/hslam/rpc"

	"verif/sim/simrt"
)

// Transport-level worlds (C13, C14, C15). Plan.Params:
//   maxconns, maxidle         Transport limits as configured (may be <= 0)
//   keepalive_ms, idle_ms     Transport timers
//   quiet_ms                  silence after the callers finished, before Transport.Close (C15 liveness)

type tEvent struct {
	Seq  uint64
	T    time.Duration
	Kind string // kill restart
	Addr int
}

type tState struct {
	T          *rpc.Transport
	C          *rpc.Client // via_client: the callers go through a load-balancing Client over T
	effConns   int
	effIdle    int
	keepAlive  time.Duration
	idleTO     time.Duration
	events     []tEvent
	down       []bool
	maxOpen    map[string]int
	closedAt   time.Duration
	openAfterQuiet int
	openAfterClose int
	secondClose    string
	quietChecked   bool
	lastTraffic    time.Duration
}

func (w *World) openTo(addr string) int {
	n := 0
	for _, p := range w.Net.Pipes {
		if p.Addr == addr && !p.Ends[0].closed {
			n++
		}
	}
	return n
}

func (w *World) openAll() int {
	n := 0
	for _, p := range w.Net.Pipes {
		if !p.Ends[0].closed {
			n++
		}
	}
	return n
}

// poolViolate raises a C13 invariant violation (only in the C13 scenario; the other
// Transport scenarios judge their own property and just count it).
func (w *World) poolViolate(oracle, sig, detail string) {
	if w.P.Scenario == "c13" {
		w.Violate(oracle, sig, detail)
	} else {
		w.Probe("pool-invariant-broken:" + sig)
	}
}

func (w *World) checkPool(where string) {
	ts := w.TS
	active, idle := rpc.VerifTransportCounts(ts.T)
	for i := range w.P.Servers {
		a := addrOf(i)
		if idle[a] > ts.effIdle {
			w.poolViolate("C13.idle-limit", "idle-limit-exceeded", fmt.Sprintf("%s: %d idle connections to %s, MaxIdleConnsPerHost is effectively %d (configured %d, MaxConnsPerHost %d)", where, idle[a], a, ts.effIdle, w.P.Params["maxidle"], w.P.Params["maxconns"]))
		}
		if active[a]+idle[a] > ts.effConns {
			w.poolViolate("C13.conn-limit", "pooled-connections-exceed-limit", fmt.Sprintf("%s: %d active + %d idle connections to %s, MaxConnsPerHost is effectively %d", where, active[a], idle[a], a, ts.effConns))
		}
		if n := w.openTo(a); n > ts.effConns {
			var ids []string
			for _, p := range w.Net.Pipes {
				if p.Addr == a && !p.Ends[0].closed {
					ids = append(ids, fmt.Sprintf("#%d(opened %v, cut=%q)", p.ID, p.Opened, p.CutBy))
				}
			}
			w.poolViolate("C13.conn-limit", "open-connections-exceed-limit", fmt.Sprintf("%s at %v: %d open connections to %s %v, pool holds %d active + %d idle, MaxConnsPerHost is effectively %d", where, simrt.Now(), n, a, ids, active[a], idle[a], ts.effConns))
		}
	}
	if idle != nil {
		w.Probe("pool-inspected")
	}
	for _, n := range idle {
		if n > 0 {
			w.Probe("idle-queue-nonempty")
			break
		}
	}
}

// RunTransportWorld is the main goroutine of the Transport scenarios.
func (w *World) RunTransportWorld() {
	p := w.P
	for i := range p.Servers {
		w.startServer(i)
	}
	ts := &tState{maxOpen: map[string]int{}, down: make([]bool, len(p.Servers))}
	w.TS = ts
	ts.effConns = p.Params["maxconns"]
	if ts.effConns < 1 {
		ts.effConns = rpc.DefaultMaxConnsPerHost
	}
	ts.effIdle = p.Params["maxidle"]
	if ts.effIdle < 1 {
		ts.effIdle = rpc.DefaultMaxIdleConnsPerHost
	} else if ts.effIdle > ts.effConns {
		ts.effIdle = ts.effConns
	}
	ts.keepAlive = time.Duration(p.Params["keepalive_ms"]) * time.Millisecond
	ts.idleTO = time.Duration(p.Params["idle_ms"]) * time.Millisecond
	t := &rpc.Transport{
		Options:             w.options(0),
		MaxConnsPerHost:     p.Params["maxconns"],
		MaxIdleConnsPerHost: p.Params["maxidle"],
		KeepAlive:           ts.keepAlive,
		IdleConnTimeout:     ts.idleTO,
	}
	ts.T = t
	if p.Params["via_client"] == 1 {
		var addrs []string
		for i := range p.Servers {
			addrs = append(addrs, addrOf(i))
		}
		cl := rpc.NewClient(nil, addrs...)
		cl.Transport = t
		cl.Scheduling = rpc.Scheduling(p.Params["sched"])
		ts.C = cl
	}
	// invariant at every dial: the new connection must fit under the limit
	w.Net.OnPipe = func(pipe *Pipe) {
		n := w.openTo(pipe.Addr)
		if n > ts.maxOpen[pipe.Addr] {
			ts.maxOpen[pipe.Addr] = n
		}
		if n > ts.effConns {
			var ids []string
			for _, q := range w.Net.Pipes {
				if q.Addr == pipe.Addr && !q.Ends[0].closed {
					ids = append(ids, fmt.Sprintf("#%d(opened %v, cut=%q)", q.ID, q.Opened, q.CutBy))
				}
			}
			detail := fmt.Sprintf("dial at %v: %d open connections to %s %v, MaxConnsPerHost is effectively %d (configured %d)", simrt.Now(), n, pipe.Addr, ids, ts.effConns, p.Params["maxconns"])
			if os.Getenv("VERIF_DEBUG") != "" {
				detail += "\n" + string(debug.Stack())
			}
			w.poolViolate("C13.conn-limit", "open-connections-exceed-limit", detail)
		}
		w.Probe("dial")
	}
	stopMon := false
	simrt.Go("harness.monitor", func() {
		for !stopMon {
			simrt.Sleep(230 * time.Millisecond)
			if stopMon {
				return
			}
			w.checkPool("housekeeping monitor")
		}
	})
	w.active = len(p.Clients)
	for ci := range p.Clients {
		ci := ci
		simrt.Go(fmt.Sprintf("harness.tcaller.%d", ci), func() {
			defer func() {
				w.active--
				w.joinQ.WakeAll()
			}()
			w.runTCaller(ci)
		})
	}
	deadline := simrt.Now() + joinGrace
	for w.active > 0 {
		left := deadline - simrt.Now()
		if left <= 0 {
			w.Probe("join-timeout")
			break
		}
		simrt.ParkTimeout(&w.joinQ, left)
	}
	w.collectSignals()
	ts.lastTraffic = simrt.Now()
	if q := p.Params["quiet_ms"]; q > 0 {
		simrt.Sleep(time.Duration(q) * time.Millisecond)
		w.checkPool("after quiet period")
		ts.openAfterQuiet = w.openAll()
		ts.quietChecked = true
	}
	stopMon = true
	w.TearingDown = true
	w.watchTeardown()
	w.shutdown = true
	w.shutdownQ.WakeAll()
	var err1 error
	if ts.C != nil {
		err1 = ts.C.Close() // closes the Transport as well
	} else {
		err1 = t.Close()
	}
	ts.closedAt = simrt.Now()
	ts.openAfterClose = w.openAll()
	err2 := t.Close()
	if err1 != nil || err2 != nil {
		ts.secondClose = fmt.Sprintf("first=%v second=%v", err1, err2)
	}
	simrt.Sleep(2*p.Net.MaxLatency + time.Second)
	for i, s := range w.Servers {
		if s != nil && w.ServerUp[i] {
			s.Close()
		}
	}
	simrt.Sleep(quietGrace)
	w.collectSignals()
	for _, c := range w.Calls {
		if c.errObj != nil {
			c.ErrAtEnd = c.errObj.Error()
		}
	}
	w.SimEnd = simrt.Now()
	w.LiveAtEnd = simrt.Live()
}

func (w *World) runTCaller(ci int) {
	cp := &w.P.Clients[ci]
	ts := w.TS
	t := ts.T
	var outstanding []*CallRec
	for oi := range cp.Ops {
		if w.Closing {
			break
		}
		op := &cp.Ops[oi]
		addr := addrOf(op.Addr)
		mk := func(form string) (*CallRec, interface{}, interface{}) {
			c := w.newCall(ci, -1, op, form)
			c.Addr = op.Addr
			c.DownAtInvoke = ts.down[op.Addr]
			args, reply := w.argsAndReply(c)
			c.Invoke, c.InvokeT = simrt.Seq(), simrt.Now()
			return c, args, reply
		}
		switch op.Kind {
		case "call":
			c, args, reply := mk("call")
			var err error
			if ts.C != nil {
				err = ts.C.Call(c.Method, args, reply)
			} else {
				err = t.Call(addr, c.Method, args, reply)
			}
			w.finishBlocking(c, err)
		case "ctx":
			c, args, reply := mk("ctx")
			ctx := context.Background()
			var cancel context.CancelFunc
			if op.Timeout > 0 {
				ctx, cancel = context.WithTimeout(ctx, time.Duration(op.Timeout)*time.Microsecond)
			} else if op.Timeout < 0 {
				ctx, cancel = context.WithCancel(ctx)
				cancel() // already cancelled
			}
			var err error
			if ts.C != nil {
				err = ts.C.CallWithContext(ctx, c.Method, args, reply)
			} else {
				err = t.CallWithContext(ctx, addr, c.Method, args, reply)
			}
			w.finishBlocking(c, err)
			if cancel != nil {
				cancel()
			}
		case "go":
			c, args, reply := mk("go")
			c.done = make(chan *rpc.Call, 4)
			done := c.done
			if op.NilDone {
				done = nil // the library allocates the channel
			}
			if ts.C != nil {
				c.call = ts.C.Go(c.Method, args, reply, done)
			} else {
				c.call = t.Go(addr, c.Method, args, reply, done)
			}
			if op.NilDone {
				c.done = c.call.Done
			}
			outstanding = append(outstanding, c)
		case "rt":
			c, args, reply := mk("rt")
			c.done = make(chan *rpc.Call, 4)
			call := &rpc.Call{ServiceMethod: c.Method, Args: args, Reply: reply, Done: c.done}
			c.call = call
			if ts.C != nil {
				ts.C.RoundTrip(call)
			} else {
				t.RoundTrip(addr, call)
			}
			outstanding = append(outstanding, c)
		case "ping":
			c, _, _ := mk("ping")
			c.Method = ""
			var err error
			if ts.C != nil {
				err = ts.C.Ping()
			} else {
				err = t.Ping(addr)
			}
			w.finishBlocking(c, err)
		case "wait":
			for _, c := range outstanding {
				w.waitAsync(c)
			}
			outstanding = outstanding[:0]
		case "sleep":
			simrt.Sleep(time.Duration(op.N) * time.Microsecond)
		case "fallback":
			if ts.C != nil {
				ts.C.Fallback(time.Duration(op.N) * time.Microsecond)
				w.Probe("fallback")
			}
		case "closeidle":
			t.CloseIdleConnections()
			w.Probe("close-idle-connections")
			w.checkPool("after CloseIdleConnections")
		case "kill":
			if l := w.Net.listeners[addr]; l != nil && !l.closed {
				ts.down[op.Addr] = true
				l.Kill()
				// the down interval begins (conservatively) when the kill is complete: while it is in
				// progress a request may still be written, executed and answered on a connection that
				// has not been cut yet
				ts.events = append(ts.events, tEvent{simrt.Seq(), simrt.Now(), "kill", op.Addr})
				w.ServerUp[op.Addr] = false
			}
		case "cutall":
			// the network drops every connection to the address; the server keeps listening
			for _, p := range w.Net.Pipes {
				if p.Addr == addr && p.Open() {
					p.Cut(KindRST, "cutall")
				}
			}
		case "restart":
			if ts.down[op.Addr] {
				w.Net.fault(FRestart)
				// the down interval ends (conservatively) when the restart begins: the new
				// listener accepts connections before startServer returns
				ev := tEvent{simrt.Seq(), simrt.Now(), "restart", op.Addr}
				w.startServer(op.Addr)
				ts.down[op.Addr] = false
				ts.events = append(ts.events, ev)
			}
		case "sopen", "swrite", "sread", "sclose":
			w.tStreamOp(t, op)
		}
		if op.Kind != "sleep" {
			w.checkPool("after " + op.Kind)
		}
		w.opDone()
	}
	for _, c := range outstanding {
		w.waitAsync(c)
	}
}

func (w *World) tStreamOp(t *rpc.Transport, op *Op) {
	rec := w.Streams[op.Stream]
	if op.Kind == "sopen" {
		method := w.streamMethod(op.Stream)
		if op.Bad == "method" {
			method = "NoSuchStream.Run"
		}
		rec.CallBlocked = "open"
		st, err := t.NewStream(addrOf(op.Addr), method)
		rec.CallBlocked = ""
		if err != nil {
			rec.OpenErr = err.Error()
			return
		}
		rec.Opened = true
		rec.stream = st
		return
	}
	w.streamOp(0, nil, op)
}

// ------------------------------------------------------------------ generators

func genTBase(r *simrt.Rand, name string) *Plan {
	p := &Plan{Scenario: name, Sim: genSim(r), Net: NetConfig{}}
	p.Sim.MaxSteps = 400000
	if r.Chance(1, 2) {
		p.Net.FragPermille = 200
	}
	p.Codec = codecs[r.Intn(3)] // json, code, pb
	p.Header = headers[r.Intn(len(headers))]
	ns := 1 + r.Intn(3)
	for i := 0; i < ns; i++ {
		s := ServerCfg{Poll: r.Chance(1, 4), Pipelining: r.Chance(1, 5)}
		p.Servers = append(p.Servers, s)
	}
	p.Net.PollMode = r.Intn(2)
	p.Net.PollWorkers = 1 + r.Intn(2)
	p.Params = map[string]int{}
	p.Params["maxconns"] = []int{-1, 0, 1, 1, 2, 2, 3, 8}[r.Intn(8)]
	p.Params["maxidle"] = []int{-1, 0, 1, 1, 2, 3, 5, 9}[r.Intn(8)]
	p.Params["keepalive_ms"] = []int{1500, 2000, 3000, 5000, 8000, 20000}[r.Intn(6)]
	p.Params["idle_ms"] = []int{1500, 2000, 3000, 5000, 8000, 20000}[r.Intn(6)]
	return p
}

func genTCall(r *simrt.Rand, ns int) Op {
	op := Op{Kind: []string{"call", "call", "call", "go", "rt", "ctx", "ping"}[r.Intn(7)], Addr: r.Intn(ns), Shape: r.Intn(4), Size: r.Intn(200), Rep: r.Intn(200), CtxBuf: -1}
	if r.Chance(1, 4) {
		op.Flags |= FlSlow
		op.Arg = uint32(1000 * (1 + r.Intn(3000))) // 1 ms .. 3 s
	}
	if op.Kind == "go" && r.Chance(1, 3) {
		op.NilDone = true
	}
	return op
}

func genSpacing(r *simrt.Rand, p *Plan) Op {
	ka, id := p.Params["keepalive_ms"], p.Params["idle_ms"]
	ms := 0
	switch r.Intn(8) {
	case 0:
		ms = r.Intn(300)
	case 1:
		ms = 1000 // one tick
	case 2:
		ms = ka - 500 + r.Intn(1000)
	case 3:
		ms = ka + 1000 + r.Intn(1500)
	case 4:
		ms = ka + id + r.Intn(3000)
	case 5:
		ms = id + r.Intn(1000)
	case 6:
		ms = 4000
	case 7:
		ms = r.Intn(2500)
	}
	if ms < 0 {
		ms = 0
	}
	return Op{Kind: "sleep", N: ms * 1000}
}

// ------------------------------------------------------------------ C13

func genC13(r *simrt.Rand, tier string, idx uint64) *Plan {
	p := genTBase(r, "c13")
	ns := len(p.Servers)
	nc := 1 + r.Intn(6)
	faulty := idx%2 == 1
	for c := 0; c < nc; c++ {
		cp := ClientPlan{}
		n := 2 + r.Intn(10)
		for i := 0; i < n; i++ {
			switch r.Intn(10) {
			case 0, 1, 2:
				cp.Ops = append(cp.Ops, genSpacing(r, p))
			case 3:
				cp.Ops = append(cp.Ops, Op{Kind: "closeidle"})
			case 4:
				if faulty && r.Bool() {
					a := r.Intn(ns)
					cp.Ops = append(cp.Ops, Op{Kind: "kill", Addr: a}, genSpacing(r, p), Op{Kind: "restart", Addr: a})
				} else if faulty {
					// the network drops the connections while the server stays reachable: dead entries
					// are replaced at once, concurrently with the callers that notice the failure
					cp.Ops = append(cp.Ops, Op{Kind: "cutall", Addr: r.Intn(ns)})
				} else {
					cp.Ops = append(cp.Ops, Op{Kind: "wait"})
				}
			default:
				op := genTCall(r, ns)
				if faulty && r.Chance(1, 2) {
					op.Flags, op.Arg = FlSlow, uint32(1000*(1+r.Intn(1500)))
				}
				if op.Kind != "ping" && r.Chance(1, 7) {
					// requests that fail on an error path of their own (unencodable argument: nothing is
					// written; unknown method / undecodable body: the server answers with an error)
					// while the connection stays healthy
					op.Bad = []string{"encode", "encode", "method", "args"}[r.Intn(4)]
				}
				cp.Ops = append(cp.Ops, op)
			}
		}
		p.Clients = append(p.Clients, cp)
	}
	return p
}

func checkC13(w *World, run *simrt.Run) {
	// violations are raised while the run proceeds (dial hook, monitor, after every operation);
	// here only the normalisation of the limits is compared with the documented rule
	ts := w.TS
	if ts == nil {
		return
	}
	mc, mi, _, _ := rpc.VerifTransportLimits(ts.T)
	if w.Probes["dial"] > 0 && (mc != ts.effConns || mi != ts.effIdle) {
		w.Violate("C13.normalisation", "limits-not-normalised", fmt.Sprintf("configured MaxConnsPerHost=%d MaxIdleConnsPerHost=%d, Transport holds %d/%d, documented rule gives %d/%d", w.P.Params["maxconns"], w.P.Params["maxidle"], mc, mi, ts.effConns, ts.effIdle))
	}
}

// ------------------------------------------------------------------ C02 through Transport / Client

// genC02T: the exactly-once oracle of C02 over calls that go through the pooling Transport, half of
// the runs through a load-balancing Client on top of it; servers are killed and restarted and
// connections cut while asynchronous calls are issued back to back, so refused dials, dead pooled
// connections and replacement dials race with completions.
func genC02T(r *simrt.Rand, tier string, idx uint64) *Plan {
	p := genTBase(r, "c02t")
	if idx%2 == 1 {
		p.Params["via_client"] = 1
		p.Params["sched"] = r.Intn(3)
		if len(p.Servers) < 2 || r.Chance(1, 2) {
			for len(p.Servers) < 2+r.Intn(2) {
				p.Servers = append(p.Servers, ServerCfg{Poll: r.Chance(1, 4), Pipelining: r.Chance(1, 5)})
			}
		}
	}
	ns := len(p.Servers)
	nc := 1 + r.Intn(4)
	async := func(a int) Op {
		op := genTCall(r, ns)
		op.Kind = []string{"go", "rt", "go", "rt", "call", "ctx"}[r.Intn(6)]
		op.NilDone = op.Kind == "go" && r.Chance(1, 3)
		op.Flags, op.Arg = 0, 0
		if a >= 0 {
			op.Addr = a
		}
		return op
	}
	for c := 0; c < nc; c++ {
		cp := ClientPlan{}
		n := 2 + r.Intn(8)
		for i := 0; i < n; i++ {
			switch r.Intn(10) {
			case 0, 1:
				cp.Ops = append(cp.Ops, Op{Kind: "sleep", N: 1000 * []int{1, 20, 90, 150, 400, 1200, 3000}[r.Intn(7)]})
			case 2:
				cp.Ops = append(cp.Ops, Op{Kind: "wait"})
			case 3, 4:
				// the server goes away; calls follow at once (the pooled connection is dead, the
				// replacement dial is refused), then the server comes back
				a := r.Intn(ns)
				cp.Ops = append(cp.Ops, Op{Kind: "kill", Addr: a})
				for k := 0; k < 1+r.Intn(5); k++ {
					cp.Ops = append(cp.Ops, async(a))
					if r.Chance(1, 3) {
						cp.Ops = append(cp.Ops, Op{Kind: "sleep", N: 1000 * []int{1, 30, 120, 600}[r.Intn(4)]})
					}
				}
				cp.Ops = append(cp.Ops, Op{Kind: "restart", Addr: a})
			case 5:
				cp.Ops = append(cp.Ops, Op{Kind: "cutall", Addr: r.Intn(ns)})
			default:
				op := async(-1)
				if r.Chance(1, 4) {
					op.Flags, op.Arg = FlSlow, uint32(1000*(1+r.Intn(800)))
				}
				if r.Chance(1, 10) {
					op.Bad = []string{"encode", "method", "args"}[r.Intn(3)]
				}
				cp.Ops = append(cp.Ops, op)
			}
		}
		p.Clients = append(p.Clients, cp)
	}
	return p
}

func checkC02T(w *World, run *simrt.Run) {
	checkC02(w, run)
}

// ------------------------------------------------------------------ C19 through Transport / Client

// genC19T: CallWithContext through the pooling Transport and (half of the runs) through a
// load-balancing Client on top of it. The network adds no simulated delay, so return times are
// exact. A quarter of the runs take servers away for a while (with a Client: possibly all of them,
// so that callers have to wait for a live target).
func genC19T(r *simrt.Rand, tier string, idx uint64) *Plan {
	p := genTBase(r, "c19t")
	p.Net.FragPermille = 0
	for i := range p.Servers {
		p.Servers[i].Pipelining = false // handlers run concurrently: answer times are the scripted ones
	}
	if idx%2 == 1 {
		p.Params["via_client"] = 1
		p.Params["sched"] = r.Intn(3)
	}
	faulty := idx%4 >= 2
	p.Params["faulty"] = b2i(faulty)
	ns := len(p.Servers)
	nc := 1 + r.Intn(4)
	for c := 0; c < nc; c++ {
		cp := ClientPlan{}
		if p.Params["via_client"] == 1 {
			cp.Ops = append(cp.Ops, Op{Kind: "sleep", N: 300000}) // the detector has found the targets
		}
		n := 1 + r.Intn(7)
		for i := 0; i < n; i++ {
			op := Op{Kind: "ctx", Addr: r.Intn(ns), Shape: r.Intn(4), Size: r.Intn(200), Rep: r.Intn(200), CtxBuf: -1}
			d := 50 + r.Intn(2000)
			switch r.Intn(8) {
			case 0: // answer well before the deadline
				op.Flags, op.Arg, op.Timeout = FlSlow, uint32(d), d+1+r.Intn(2000)
			case 1: // deadline before the answer
				op.Flags, op.Arg, op.Timeout = FlSlow, uint32(d+1+r.Intn(2000)), d
			case 2: // never answered
				op.Flags, op.Timeout = FlNoAnswer, d
			case 3: // already cancelled
				op.Timeout = -1
			case 4: // immediate answer, generous deadline
				op.Timeout = 1000000
			case 5: // no deadline
			default: // a sibling of another form
				op.Kind = []string{"call", "go", "rt", "ping"}[r.Intn(4)]
				if r.Bool() {
					op.Flags, op.Arg = FlSlow, uint32(1+r.Intn(1500))
				}
			}
			cp.Ops = append(cp.Ops, op)
			if r.Chance(1, 4) {
				cp.Ops = append(cp.Ops, Op{Kind: "sleep", N: r.Intn(3000)})
			}
		}
		p.Clients = append(p.Clients, cp)
	}
	if p.Params["via_client"] == 1 && idx%8 == 1 {
		// routing paused by Fallback: a CallWithContext issued during the pause still returns at its deadline
		fb := 500000 + r.Intn(1500000)
		p.Clients = append(p.Clients, ClientPlan{Ops: []Op{{Kind: "sleep", N: 320000}, {Kind: "fallback", N: fb}}})
		for c := 0; c < 1+r.Intn(3); c++ {
			d := 50 + r.Intn(2000)
			p.Clients = append(p.Clients, ClientPlan{Ops: []Op{{Kind: "sleep", N: 330000 + r.Intn(fb/2)}, {Kind: "ctx", Addr: r.Intn(ns), Size: 5, Rep: 5, CtxBuf: -1, Timeout: d}, {Kind: "ctx", Addr: r.Intn(ns), Size: 5, Rep: 5, CtxBuf: -1, Timeout: -1}}})
		}
		p.Params["faulty"] = 1 // (exact answer-time expectations do not apply to calls that wait for the pause)
	}
	if faulty {
		// servers go away (all of them in half of these runs) and come back much later
		cp := ClientPlan{Ops: []Op{{Kind: "sleep", N: 300000 + r.Intn(3000)}}}
		all := r.Bool()
		for a := 0; a < ns; a++ {
			if all || r.Bool() {
				cp.Ops = append(cp.Ops, Op{Kind: "kill", Addr: a})
			}
		}
		cp.Ops = append(cp.Ops, Op{Kind: "sleep", N: 4000000})
		for a := 0; a < ns; a++ {
			cp.Ops = append(cp.Ops, Op{Kind: "restart", Addr: a})
		}
		p.Clients = append(p.Clients, cp)
		// callers that arrive while the servers are away
		for c := 0; c < 1+r.Intn(3); c++ {
			d := 50 + r.Intn(2000)
			p.Clients = append(p.Clients, ClientPlan{Ops: []Op{{Kind: "sleep", N: 420000 + r.Intn(500000)}, {Kind: "ctx", Addr: r.Intn(ns), Size: 5, Rep: 5, CtxBuf: -1, Timeout: d}, {Kind: "ctx", Addr: r.Intn(ns), Size: 5, Rep: 5, CtxBuf: -1, Timeout: -1}}})
		}
	}
	return p
}

func checkC19T(w *World, run *simrt.Run) {
	faulty := w.P.Params["faulty"] == 1
	for _, c := range w.Calls {
		if !c.Returned {
			w.Violate("C19.stuck", "call-never-returned:"+c.Form, descCall(c))
			continue
		}
		if c.Form != "ctx" {
			if !faulty && ((c.Form == "ping" && c.Err != "") || (c.Form != "ping" && (c.Err != "" || !c.ReplyOK))) {
				w.Violate("C19.sibling-harmed", "sibling-call-harmed:"+c.Form, descCall(c)+": "+c.ReplyWhy)
			}
			continue
		}
		took := c.ReturnT - c.InvokeT
		to := time.Duration(c.Timeout) * time.Microsecond
		if c.Err == "" && !c.ReplyOK {
			w.Violate("C19.wrong-reply", "ctx-call-wrong-reply", descCall(c)+": "+c.ReplyWhy)
		}
		if c.Timeout > 0 && took > to {
			w.Violate("C19.late", "returned-after-deadline", fmt.Sprintf("%s: deadline %v, returned after %v with %q (through a Client: %v)", descCall(c), to, took, c.Err, w.TS.C != nil))
		}
		if c.Timeout < 0 && took > 0 {
			w.Violate("C19.late", "cancelled-call-took-time", fmt.Sprintf("%s: context already cancelled, returned after %v with %q (through a Client: %v)", descCall(c), took, c.Err, w.TS.C != nil))
		}
		if faulty {
			continue
		}
		slow := time.Duration(0)
		if c.Flags&FlSlow != 0 {
			slow = time.Duration(c.Arg) * time.Microsecond
		}
		noAnswer := c.Flags&FlNoAnswer != 0
		switch {
		case c.Timeout > 0 && !noAnswer && slow < to:
			if c.Err != "" {
				w.Violate("C19.reply-lost", "reply-before-deadline-not-returned", fmt.Sprintf("%s: handler answers after %v, deadline %v, got %q after %v", descCall(c), slow, to, c.Err, took))
			} else {
				w.Probe("reply-before-deadline")
			}
		case c.Timeout > 0 && (noAnswer || slow > to):
			if c.ErrKind != "deadline" {
				w.Violate("C19.no-timeout", "deadline-before-reply-not-reported", fmt.Sprintf("%s: handler answers after %v (never=%v), deadline %v, got err=%q", descCall(c), slow, noAnswer, to, c.Err))
			} else if took != to {
				w.Violate("C19.late", "deadline-not-prompt", fmt.Sprintf("%s: deadline %v, returned after %v", descCall(c), to, took))
			} else {
				w.Probe("deadline-before-reply")
			}
		case c.Timeout == 0:
			if c.Err != "" {
				w.Violate("C19.wrong-error", "ctx-call-without-deadline-failed", descCall(c))
			}
		}
	}
}

// ------------------------------------------------------------------ C14

func genC14(r *simrt.Rand, tier string, idx uint64) *Plan {
	p := genTBase(r, "c14")
	ns := len(p.Servers)
	sequential := idx%2 == 0
	p.Params["sequential"] = b2i(sequential)
	if sequential && idx%4 == 2 {
		// regular spacing: one caller per address calling every f x KeepAlive, a kill/restart in
		// the middle; with MaxConnsPerHost >= 2 the round robin makes some pooled connections
		// retire to the idle queue while others stay active
		p.Params["maxconns"] = 2 + r.Intn(2)
		p.Params["maxidle"] = 1 + r.Intn(3)
		for a := 0; a < ns; a++ {
			f := []int{30, 60, 75, 90, 120, 250}[r.Intn(6)]
			gap := p.Params["keepalive_ms"] * f / 100 * 1000
			cp := ClientPlan{}
			n := 8 + r.Intn(10)
			k := 2 + r.Intn(n-4)
			for i := 0; i < n; i++ {
				op := Op{Kind: []string{"call", "ping", "ctx", "call"}[r.Intn(4)], Addr: a, Shape: r.Intn(4), Size: r.Intn(100), Rep: r.Intn(100), CtxBuf: -1}
				cp.Ops = append(cp.Ops, op, Op{Kind: "sleep", N: gap})
				if i == k {
					cp.Ops = append(cp.Ops, Op{Kind: "kill", Addr: a}, Op{Kind: "sleep", N: 1000 * r.Intn(3000)}, Op{Kind: "restart", Addr: a})
				}
			}
			p.Clients = append(p.Clients, cp)
		}
		return p
	}
	if sequential {
		// one caller per address, so that "at most one failure per pooled connection" can be counted
		for a := 0; a < ns; a++ {
			cp := ClientPlan{}
			n := 6 + r.Intn(14)
			killed := false
			for i := 0; i < n; i++ {
				switch r.Intn(9) {
				case 0, 1, 2:
					cp.Ops = append(cp.Ops, genSpacing(r, p))
				case 3:
					if !killed {
						cp.Ops = append(cp.Ops, Op{Kind: "kill", Addr: a})
						// a few calls while the server is down
						for k := 0; k < r.Intn(5); k++ {
							op := genTCall(r, 1)
							op.Addr, op.Flags, op.Arg = a, 0, 0
							cp.Ops = append(cp.Ops, op)
							if r.Bool() {
								cp.Ops = append(cp.Ops, genSpacing(r, p))
							}
						}
						cp.Ops = append(cp.Ops, Op{Kind: "restart", Addr: a})
						if r.Chance(1, 2) {
							// right after the restart, within one housekeeping tick: an asynchronous call
							// (its failure is only known at completion) followed at once by further calls
							for k := 0; k < 1+r.Intn(3); k++ {
								op := genTCall(r, 1)
								op.Addr, op.Flags, op.Arg = a, 0, 0
								if k == 0 {
									op.Kind = []string{"go", "rt"}[r.Intn(2)]
								}
								cp.Ops = append(cp.Ops, op)
								if op.Kind == "go" || op.Kind == "rt" {
									cp.Ops = append(cp.Ops, Op{Kind: "wait"})
								}
							}
						}
						killed = r.Chance(2, 3)
					}
				default:
					op := genTCall(r, 1)
					op.Addr = a
					op.Flags, op.Arg = 0, 0
					if op.Kind == "go" || op.Kind == "rt" {
						cp.Ops = append(cp.Ops, op, Op{Kind: "wait"})
					} else {
						cp.Ops = append(cp.Ops, op)
					}
				}
			}
			p.Clients = append(p.Clients, cp)
		}
	} else {
		nc := 2 + r.Intn(5)
		for c := 0; c < nc; c++ {
			cp := ClientPlan{}
			n := 3 + r.Intn(10)
			for i := 0; i < n; i++ {
				switch r.Intn(10) {
				case 0, 1:
					cp.Ops = append(cp.Ops, genSpacing(r, p))
				case 2:
					if c == 0 {
						a := r.Intn(ns)
						cp.Ops = append(cp.Ops, Op{Kind: "kill", Addr: a}, genSpacing(r, p), Op{Kind: "restart", Addr: a})
					}
				default:
					op := genTCall(r, ns)
					op.Flags, op.Arg = 0, 0
					cp.Ops = append(cp.Ops, op)
				}
			}
			p.Clients = append(p.Clients, cp)
		}
	}
	return p
}

func checkC14(w *World, run *simrt.Run) {
	ts := w.TS
	if ts == nil {
		return
	}
	// which server answered
	for _, c := range w.Calls {
		if !c.Returned {
			w.Violate("C14.stuck", "transport-call-never-returned:"+c.Form, descCall(c))
			continue
		}
		if c.Err == "" && c.Form != "ping" && !c.ReplyOK {
			w.Violate("C14.wrong-server", "reply-from-wrong-server-or-corrupted", descCall(c)+": "+c.ReplyWhy)
		}
	}
	// request frames of a call for A only on connections dialed to A
	for _, p := range w.Net.Pipes {
		for _, f := range DecodeStream(p.Dir(0).Log, w.P.Header, true) {
			if f.Stream != 0 || f.Heartbeat || len(f.Body) == 0 {
				continue
			}
			if c := w.byID[BodyID(f.Body, w.P.Codec)]; c != nil && addrOf(c.Addr) != p.Addr {
				w.Violate("C14.wrong-connection", "request-sent-over-connection-to-other-address", fmt.Sprintf("%s: request frame found on a connection dialed to %s", descCall(c), p.Addr))
			}
		}
	}
	// down intervals per address
	type iv struct{ from, to uint64 }
	downIv := map[int][]iv{}
	lastRestart := map[int]uint64{}
	open := map[int]uint64{}
	for _, e := range ts.events {
		if e.Kind == "kill" {
			open[e.Addr] = e.Seq
		} else {
			downIv[e.Addr] = append(downIv[e.Addr], iv{open[e.Addr], e.Seq})
			lastRestart[e.Addr] = e.Seq
			delete(open, e.Addr)
		}
	}
	for a, from := range open {
		downIv[a] = append(downIv[a], iv{from, ^uint64(0)})
	}
	for _, c := range w.Calls {
		if !c.Returned {
			continue
		}
		for _, d := range downIv[c.Addr] {
			if c.Invoke > d.from && c.Return < d.to {
				// the server was unreachable during the whole call
				if c.ErrKind != "dial" && c.ErrKind != "shutdown" {
					w.Violate("C14.unreachable", "call-to-dead-server-unexpected-outcome:"+c.Form, fmt.Sprintf("%s: server was down for the whole call, got err=%q", descCall(c), c.Err))
				} else if c.ReturnT != c.InvokeT && (c.Form == "call" || c.Form == "ping" || c.Form == "ctx") {
					w.Violate("C14.unreachable", "call-to-dead-server-not-prompt", fmt.Sprintf("%s: took %v of simulated time", descCall(c), c.ReturnT-c.InvokeT))
				} else {
					w.Probe("call-while-down-failed-promptly")
				}
			}
		}
	}
	// while the server is away: each pooled connection may be found dead once (ErrShutdown); after
	// that a sequential caller gets ErrDial, never the same dead connection again
	if w.P.Params["sequential"] == 1 {
		for a := range w.P.Servers {
			for _, d := range downIv[a] {
				shut := 0
				var lastReturn uint64
				for _, c := range w.Calls {
					if c.Addr != a || !c.Returned {
						continue
					}
					overlapped := c.Invoke < lastReturn
					if c.Return > lastReturn {
						lastReturn = c.Return
					}
					if overlapped || !(c.Invoke > d.from && c.Return < d.to) {
						continue
					}
					if c.ErrKind == "shutdown" {
						shut++
						if shut > ts.effConns {
							w.Violate("C14.unreachable", "dead-connection-handed-out-again-while-down:"+c.Form, fmt.Sprintf("%s: ErrShutdown number %d while the server was away, MaxConnsPerHost is effectively %d: a connection already known dead was used again instead of reporting the refused dial", descCall(c), shut, ts.effConns))
							break
						}
					}
				}
			}
		}
	}
	// recovery: a sequential caller sees at most one failure per pooled connection after the restart
	if w.P.Params["sequential"] == 1 {
		for a := range w.P.Servers {
			rs, ok := lastRestart[a]
			if !ok || ts.down[a] {
				continue
			}
			// "at most one failure per pooled connection": a dead connection parked in the
			// idle queue may legitimately be discovered after an earlier success, so only
			// the total number of failures since the restart is bounded, not their position
			fails, succeeded := 0, false
			var lastReturn uint64
			for _, c := range w.Calls { // one caller per address here
				if c.Addr != a || !c.Returned {
					continue
				}
				overlapped := c.Invoke < lastReturn // an earlier (asynchronous) call was still outstanding: not sequential
				if c.Return > lastReturn {
					lastReturn = c.Return
				}
				if c.Invoke < rs || overlapped {
					continue
				}
				if c.Err != "" {
					fails++
					if fails > ts.effConns {
						w.Violate("C14.recovery", "more-failures-than-pooled-connections:"+c.ErrKind, fmt.Sprintf("%s: failure number %d after the server came back, MaxConnsPerHost is effectively %d (KeepAlive %v, IdleConnTimeout %v)", descCall(c), fails, ts.effConns, ts.keepAlive, ts.idleTO))
						break
					}
				} else {
					succeeded = true
				}
			}
			if succeeded {
				w.Probe("recovered-after-restart")
			}
		}
	}
}

// ------------------------------------------------------------------ C15

func genC15(r *simrt.Rand, tier string, idx uint64) *Plan {
	p := genTBase(r, "c15")
	if p.Codec == "bytes" {
		p.Codec = "code"
	}
	ns := len(p.Servers)
	// KeepAlive <, =, > IdleConnTimeout, also below the 1 s tick
	p.Params["keepalive_ms"] = []int{300, 1000, 1500, 2500, 4000, 9000}[r.Intn(6)]
	p.Params["idle_ms"] = []int{300, 1000, 1500, 2500, 4000, 9000}[r.Intn(6)]
	// a long call that spans many ticks
	long := Op{Kind: []string{"call", "go", "rt", "ctx"}[r.Intn(4)], Addr: r.Intn(ns), Shape: r.Intn(4), Size: 20, Rep: 30, CtxBuf: -1, Flags: FlSlow, Arg: uint32(1000000 * (3 + r.Intn(40)))}
	p.Clients = append(p.Clients, ClientPlan{Ops: []Op{long, {Kind: "wait"}}})
	// an open stream that keeps talking across ticks
	if r.Chance(2, 3) {
		k := 0
		a := r.Intn(ns)
		nw := 2 + r.Intn(4)
		sp := StreamPlan{Echo: true}
		ops := []Op{{Kind: "sopen", Stream: k, Addr: a}}
		for i := 0; i < nw; i++ {
			sp.Sizes = append(sp.Sizes, 1+r.Intn(100))
			ops = append(ops, Op{Kind: "swrite", Stream: k, N: 1}, Op{Kind: "sread", Stream: k, N: 1}, Op{Kind: "sleep", N: 1000 * (500 + r.Intn(9000))})
		}
		p.Streams = append(p.Streams, sp)
		p.Conns = []ConnCfg{{Server: a}} // stream services are registered on the server of Conns[sp.Conn]
		p.Clients = append(p.Clients, ClientPlan{Ops: ops})
	}
	// a stream open that the server answers with an error (unknown method): the connection is
	// healthy and unused afterwards
	if r.Chance(1, 3) {
		k := len(p.Streams)
		a := r.Intn(ns)
		p.Streams = append(p.Streams, StreamPlan{})
		if len(p.Conns) == 0 {
			p.Conns = []ConnCfg{{Server: a}}
		}
		p.Clients = append(p.Clients, ClientPlan{Ops: []Op{{Kind: "sleep", N: 1000 * r.Intn(2000)}, {Kind: "sopen", Stream: k, Addr: a, Bad: "method"}}})
	}
	// short calls and CloseIdleConnections at PRNG instants
	nc := 1 + r.Intn(3)
	for c := 0; c < nc; c++ {
		cp := ClientPlan{}
		n := 3 + r.Intn(8)
		for i := 0; i < n; i++ {
			switch r.Intn(6) {
			case 0, 1:
				cp.Ops = append(cp.Ops, Op{Kind: "sleep", N: 1000 * r.Intn(6000)})
			case 2:
				cp.Ops = append(cp.Ops, Op{Kind: "closeidle"})
			default:
				op := genTCall(r, ns)
				op.Flags, op.Arg = 0, 0
				cp.Ops = append(cp.Ops, op)
			}
		}
		p.Clients = append(p.Clients, cp)
	}
	p.Params["quiet_ms"] = p.Params["keepalive_ms"] + p.Params["idle_ms"] + 3000 + 500
	if idx%3 == 1 {
		// Close while connections are parked in the idle queue: retired (KeepAlive passed)
		// but not yet expired (IdleConnTimeout not passed)
		p.Params["maxconns"] = 2 + r.Intn(4)
		p.Params["maxidle"] = 2 + r.Intn(4)
		p.Params["idle_ms"] = 20000
		p.Params["quiet_ms"] = p.Params["keepalive_ms"] + 2500
		p.Params["quiet_partial"] = 1
	}
	return p
}

func checkC15(w *World, run *simrt.Run) {
	ts := w.TS
	if ts == nil {
		return
	}
	// safety: nothing that was in use was closed by the pool
	for _, c := range w.Calls {
		if !c.Returned {
			w.Violate("C15.busy-closed", "call-never-returned:"+c.Form, descCall(c))
			continue
		}
		if c.Form == "ping" {
			if c.Err != "" {
				w.Probe("ping-lost-race-with-housekeeping")
			}
			continue
		}
		if c.Err == "" && !c.ReplyOK {
			w.Violate("C15.busy-closed", "wrong-reply", descCall(c)+": "+c.ReplyWhy)
			continue
		}
		if c.Err != "" {
			// The statement protects a connection "on which a call has been sent and not
			// yet answered": a call that lost the race before its request reached the
			// wire may fail; one whose request was written may not.
			if !w.requestOnWire(c) {
				w.Probe("call-failed-before-its-request-was-sent")
				continue
			}
			sig := "short-call-failed-after-send"
			if c.Flags&FlSlow != 0 {
				sig = "long-call-failed"
			}
			w.Violate("C15.busy-closed", sig+":"+c.ErrKind, fmt.Sprintf("%s: no fault was injected and its request had been written: the pool closed a connection carrying an unanswered call", descCall(c)))
		} else if c.Flags&FlSlow != 0 {
			w.Probe("long-call-survived")
		}
	}
	for _, s := range w.Streams {
		if s.OpenErr != "" {
			w.Probe("stream-open-lost-race-with-housekeeping") // not yet an open stream
			continue
		}
		if s.ClientReadErr != "" || s.ClientWriteErr != "" || !idsEqual(s.CGot, s.SSent) {
			w.Violate("C15.busy-closed", "open-stream-disturbed", fmt.Sprintf("stream %d: openErr=%q readErr=%q writeErr=%q got %d of %d", s.Idx, s.OpenErr, s.ClientReadErr, s.ClientWriteErr, len(s.CGot), len(s.SSent)))
		} else if s.Opened {
			w.Probe("stream-survived-housekeeping")
		}
	}
	// liveness: unused connections are gone after KeepAlive + IdleConnTimeout + 3 ticks
	if ts.quietChecked && w.P.Params["quiet_partial"] == 1 {
		w.Probes["connections-open-at-close"] += ts.openAfterQuiet
	} else if ts.quietChecked {
		streamOpen := 0
		for _, s := range w.Streams {
			if s.Opened && !s.Closed {
				streamOpen++ // an open stream legitimately keeps its connection
			}
		}
		if ts.openAfterQuiet > streamOpen {
			w.Violate("C15.not-reclaimed", "unused-connections-not-closed", fmt.Sprintf("%d connections still open %d ms after the last traffic (KeepAlive %v, IdleConnTimeout %v, %d still carry an open stream)", ts.openAfterQuiet, w.P.Params["quiet_ms"], ts.keepAlive, ts.idleTO, streamOpen))
		} else {
			w.Probe("unused-connections-reclaimed")
		}
	}
	if ts.openAfterClose != 0 {
		w.Violate("C15.close", "transport-close-leaves-connections", fmt.Sprintf("%d connections still open right after Transport.Close", ts.openAfterClose))
	}
	if ts.secondClose != "" {
		w.Violate("C15.close", "transport-close-error", ts.secondClose)
	}
}

// ------------------------------------------------------------------ C04 through the Transport

func genC04T(r *simrt.Rand, tier string, idx uint64) *Plan {
	p := genTBase(r, "c04t")
	if idx%2 == 1 {
		// through a load-balancing Client on top of the Transport: it must not retry either
		p.Params["via_client"] = 1
		p.Params["sched"] = r.Intn(3)
	}
	ns := len(p.Servers)
	nc := 1 + r.Intn(4)
	for c := 0; c < nc; c++ {
		cp := ClientPlan{}
		for i := 0; i < 2+r.Intn(8); i++ {
			op := genTCall(r, ns)
			if r.Chance(1, 2) {
				op.Flags, op.Arg = FlSlow, uint32(1000*(1+r.Intn(400)))
			}
			cp.Ops = append(cp.Ops, op)
			if r.Chance(1, 4) {
				cp.Ops = append(cp.Ops, Op{Kind: "sleep", N: 1000 * r.Intn(500)})
			}
		}
		cp.Ops = append(cp.Ops, Op{Kind: "wait"})
		p.Clients = append(p.Clients, cp)
	}
	// connection drops while calls are pending; the servers stay reachable
	fc := ClientPlan{}
	for k := 0; k < 1+r.Intn(3); k++ {
		fc.Ops = append(fc.Ops, Op{Kind: "sleep", N: 1000 * r.Intn(600)}, Op{Kind: "cutall", Addr: r.Intn(ns)})
		if r.Chance(1, 4) {
			a := r.Intn(ns)
			fc.Ops = append(fc.Ops, Op{Kind: "kill", Addr: a}, Op{Kind: "sleep", N: 1000 * r.Intn(300)}, Op{Kind: "restart", Addr: a})
		}
	}
	p.Clients = append(p.Clients, fc)
	return p
}

func checkC04T(w *World, run *simrt.Run) {
	execs := map[uint64]int{}
	for _, e := range w.Execs {
		if !e.Stream {
			execs[e.ID]++
			if c := w.byID[e.ID]; c == nil {
				w.Violate("C04.phantom-execution", "phantom-execution", fmt.Sprintf("handler ran for id %d which no caller sent", e.ID))
			} else if !e.ArgOK || e.ArgLen != c.Size {
				w.Violate("C04.wrong-arguments", "wrong-arguments", descCall(c))
			}
		}
	}
	frames := map[uint64]int{}
	for _, p := range w.Net.Pipes {
		for _, f := range DecodeStream(p.Dir(0).Log, w.P.Header, true) {
			if f.Stream == 0 && !f.Heartbeat && len(f.Body) > 0 {
				if id := BodyID(f.Body, w.P.Codec); w.byID[id] != nil {
					frames[id]++
				}
			}
		}
	}
	for _, c := range w.Calls {
		if c.Form == "ping" {
			continue
		}
		if execs[c.ID] > 1 {
			w.Violate("C04.duplicate-execution", "duplicate-execution-through-transport:"+c.Form, fmt.Sprintf("%s: handler ran %d times", descCall(c), execs[c.ID]))
		}
		if frames[c.ID] > 1 {
			w.Violate("C04.retry", "request-sent-more-than-once:"+c.Form, fmt.Sprintf("%s: %d request frames on the wire (the Transport must surface errors, not retry)", descCall(c), frames[c.ID]))
		}
		if c.Returned && c.Err == "" && execs[c.ID] != 1 {
			w.Violate("C04.success-without-execution", "success-executions!=1:"+c.Form, fmt.Sprintf("%s: reported successful, executed %d times", descCall(c), execs[c.ID]))
		}
		if c.Returned && c.Err != "" && execs[c.ID] == 1 {
			w.Probe("failed-call-was-executed-once")
		}
	}
}

func init() {
	register(&Scenario{Property: "C02", Name: "c02t", Gen: genC02T, Main: (*World).RunTransportWorld, Check: checkC02T})
	register(&Scenario{Property: "C19", Name: "c19t", Gen: genC19T, Main: (*World).RunTransportWorld, Check: checkC19T})
	register(&Scenario{Property: "C04", Name: "c04t", Gen: genC04T, Main: (*World).RunTransportWorld, Check: checkC04T})
	register(&Scenario{Property: "C13", Name: "c13", Gen: genC13, Main: (*World).RunTransportWorld, Check: checkC13})
	register(&Scenario{Property: "C14", Name: "c14", Gen: genC14, Main: (*World).RunTransportWorld, Check: checkC14})
	register(&Scenario{Property: "C15", Name: "c15", Gen: genC15, Main: (*World).RunTransportWorld, Check: checkC15})
}

// requestOnWire reports whether the request frame of c was written to any connection.
func (w *World) requestOnWire(c *CallRec) bool {
	for _, p := range w.Net.Pipes {
		for _, f := range DecodeStream(p.Dir(0).Log, w.P.Header, true) {
			if f.Stream == 0 && !f.Heartbeat && len(f.Body) > 0 && BodyID(f.Body, w.P.Codec) == c.ID {
				return true
			}
		}
	}
	return false
}
