package harness

import (
	"github.com/hslam/rpc"
	"fmt"
	"sort"

	"verif/sim/simrt"
)

// wire is the decoded traffic of one connection.
type wire struct {
	req, res []Frame
	seqToID  map[uint64]uint64 // request seq -> call id (unary requests with a body)
	idToSeq  map[uint64]uint64
}

func (w *World) wireOf(conn int) *wire {
	p := w.ConnPipe[conn]
	if p == nil {
		return &wire{seqToID: map[uint64]uint64{}, idToSeq: map[uint64]uint64{}}
	}
	wi := &wire{seqToID: map[uint64]uint64{}, idToSeq: map[uint64]uint64{}}
	wi.req = DecodeStream(p.Dir(0).Log, w.P.Header, true)
	wi.res = DecodeStream(p.Dir(1).Log, w.P.Header, false)
	for _, f := range wi.req {
		if f.Stream == 0 && !f.Heartbeat && len(f.Body) > 0 {
			if id := BodyID(f.Body, w.P.Codec); id != 0 && w.byID[id] != nil {
				wi.seqToID[f.Seq] = id
				wi.idToSeq[id] = f.Seq
			}
		}
	}
	return wi
}

func (w *World) callByID(id uint64) *CallRec { return w.byID[id] }

func mixedOps(r *simrt.Rand, n int, big *int, kinds []string) []Op {
	var ops []Op
	for i := 0; i < n; i++ {
		switch r.Intn(12) {
		case 0:
			ops = append(ops, Op{Kind: "ping"})
		case 1:
			ops = append(ops, Op{Kind: "wait"})
		case 2:
			ops = append(ops, Op{Kind: "sleep", N: r.Intn(300)})
		default:
			op := genCallOp(r, big)
			if kinds != nil {
				op.Kind = kinds[r.Intn(len(kinds))]
			}
			ops = append(ops, op)
		}
	}
	return ops
}

// connDirect: 0 SetDirectIO not called (buffered writes), 1 SetDirectIO(true), 2 SetDirectIO(false): unbuffered writes
func genDirectSet(r *simrt.Rand) int { return r.Intn(3) }

// ------------------------------------------------------------------ C02

func genC02(r *simrt.Rand, tier string, idx uint64) *Plan {
	p := genBase(r, "c02", true)
	big := bigBudget(p)
	if big > 0 {
		big = 1
	}
	for i := range p.Conns {
		p.Conns[i].DirectSet = genDirectSet(r)
		if r.Chance(1, 3) {
			p.Conns[i].DirectSet = 2 // unbuffered: a failing socket write is reported to send()
		}
		if r.Chance(1, 3) {
			p.Conns[i].Pipelining = true // client pipelining: completions go through the ordered queue
		}
	}
	if idx%3 == 0 {
		p.Sim.Starve = "rpc.Conn.Dial" // the connection reader only runs when nothing else can
	}
	if idx%4 == 1 {
		// a write that reports failure although the frame was delivered: the response can
		// complete the call before the write-error path runs
		p.Net.LateWriteErr = []int{30, 150, 500}[r.Intn(3)]
	}
	nclients := 1 + r.Intn(4)
	for c := 0; c < nclients; c++ {
		cp := ClientPlan{Conn: r.Intn(len(p.Conns))}
		cp.Ops = mixedOps(r, 1+r.Intn(8), &big, []string{"go", "go", "rt", "rt", "call", "ctx"})
		if r.Chance(1, 2) {
			// calls answered with an error response (handler error, unknown method, undecodable arguments):
			// completed once by that response, never again by the sweep when the connection ends
			for j := range cp.Ops {
				op := &cp.Ops[j]
				if (op.Kind == "go" || op.Kind == "rt" || op.Kind == "call") && r.Chance(1, 3) {
					if r.Chance(1, 2) {
						op.Flags |= FlFail
						op.Arg = uint32(1 + r.Intn(40))
					} else {
						op.Bad = []string{"method", "args"}[r.Intn(2)]
					}
				}
			}
		}
		if r.Chance(1, 3) {
			// a call abandoned by its context, then a call that is outstanding when the late response
			// arrives: it must be completed once, by its own response
			d := 300 + r.Intn(1500)
			ab := Op{Kind: "ctx", Shape: r.Intn(4), Size: r.Intn(64), Rep: r.Intn(64), CtxBuf: -1, Flags: FlSlow, Arg: uint32(d), Timeout: d / 3}
			nx := Op{Kind: []string{"go", "rt"}[r.Intn(2)], Shape: r.Intn(4), Size: r.Intn(64), Rep: r.Intn(64), CtxBuf: -1, Flags: FlSlow, Arg: uint32(2*d + r.Intn(1000))}
			at := r.Intn(len(cp.Ops) + 1)
			cp.Ops = append(cp.Ops[:at:at], append([]Op{ab, nx}, cp.Ops[at:]...)...)
		}
		p.Clients = append(p.Clients, cp)
	}
	total := 0
	for _, c := range p.Clients {
		total += len(c.Ops)
	}
	nf := 1
	if r.Chance(1, 4) {
		nf = 2
	}
	for i := 0; i < nf; i++ {
		f := Fault{Conn: r.Intn(len(p.Conns)), RST: r.Bool()}
		switch r.Intn(6) {
		case 0, 1:
			f.Kind = "cut"
			f.Side = r.Intn(2)
			f.Offset = int64(r.Intn(600))
		case 2:
			f.Kind = "cut"
			f.AtOp = 1 + r.Intn(total)
		case 3, 4:
			f.Kind = "closeconn"
			f.AtOp = 1 + r.Intn(total)
		case 5:
			f.Kind = "killserver"
			f.AtOp = 1 + r.Intn(total)
			f.Server = p.Conns[f.Conn].Server
		}
		p.Faults = append(p.Faults, f)
	}
	p.Net.ResetAsTimeout = r.Chance(1, 4) // a reset connection's reader gets an error that is not io.EOF
	return p
}

func checkC02(w *World, run *simrt.Run) {
	for _, c := range w.Calls {
		async := c.Form == "go" || c.Form == "rt"
		if async {
			switch {
			case c.Signals == 0:
				w.Violate("C02.never-completed", "never-completed:"+c.Form, descCall(c)+": Done never received the call although the connection was torn down")
			case c.Signals > 1:
				w.Violate("C02.double-completion", "double-completion:"+c.Form, fmt.Sprintf("%s: Done received the call %d times (first error %q, error at end %q)", descCall(c), c.Signals, c.Err, c.ErrAtEnd))
			}
			if c.SignalOther {
				w.Violate("C02.foreign-call", "foreign-call-on-done", descCall(c)+": Done delivered a different *Call")
			}
			if c.Signals >= 1 && c.ErrAtEnd != c.Err {
				w.Violate("C02.error-changed", "error-changed-after-completion", fmt.Sprintf("%s: Error was %q when completion was signalled and %q at end of run", descCall(c), c.Err, c.ErrAtEnd))
			}
		} else if !c.Returned {
			w.Violate("C02.never-completed", "never-returned:"+c.Form, descCall(c)+": blocking call never returned although the connection was torn down")
		}
		if c.Returned && c.Err == "" && c.Form != "ping" && !c.ReplyOK {
			w.Violate("C02.completion-without-reply", "completion-without-reply:"+c.Form, descCall(c)+": completed without error and without its reply: "+c.ReplyWhy)
		}
	}
}

// ------------------------------------------------------------------ C03

// conversations are generated from a small seed so that cut offsets can be enumerated per conversation
func genC03(r *simrt.Rand, tier string, idx uint64) *Plan {
	nconv := uint64(32)
	conv := idx % nconv
	point := idx / nconv
	cr := simrt.NewRand(simrt.Mix(0xC03, conv))
	p := genBase(cr, "c03", true)
	p.Sim = genSim(r) // schedule knobs vary per run, the conversation does not
	p.Net.FragPermille = 0
	if r.Chance(1, 2) {
		p.Net.FragPermille = 400
	}
	p.Net.SilentPipe = r.Bool()
	p.Net.ResetAsTimeout = r.Chance(1, 3) // the reader's error is not one the framing layer turns into io.EOF
	p.Servers = p.Servers[:1]
	p.Conns = []ConnCfg{genConn(cr, 1)}
	p.Conns[0].DirectSet = genDirectSet(cr)
	small := -1
	nclients := 1 + cr.Intn(3)
	for c := 0; c < nclients; c++ {
		cp := ClientPlan{Conn: 0}
		cp.Ops = mixedOps(cr, 2+cr.Intn(4), &small, nil)
		// calls started after the loss
		cp.Ops = append(cp.Ops, Op{Kind: "wait"}, Op{Kind: "call", Size: 5, Rep: 5, CtxBuf: -1}, Op{Kind: "go", Size: 3, Rep: 3, CtxBuf: -1})
		p.Clients = append(p.Clients, cp)
	}
	if cr.Chance(1, 2) {
		streamCodec(cr, p)
		p.Streams = []StreamPlan{{Conn: 0, Push: cr.Intn(3), Echo: true}}
		last := Op{Kind: "sread", N: 1}
		if cr.Chance(1, 2) {
			last = Op{Kind: "sclose"} // a close request in flight is a call waiting for its acknowledgement
		}
		p.Clients = append(p.Clients, ClientPlan{Conn: 0, Ops: []Op{{Kind: "sopen"}, {Kind: "swrite", N: 2}, {Kind: "sread", N: 2 + p.Streams[0].Push}, last}})
		if cr.Chance(1, 2) {
			// a second stream opened and closed at once
			p.Streams = append(p.Streams, StreamPlan{Conn: 0, Echo: true})
			p.Clients = append(p.Clients, ClientPlan{Conn: 0, Ops: []Op{{Kind: "sopen", Stream: 1}, {Kind: "sclose", Stream: 1}}})
		}
	}
	// estimate of the conversation length per direction
	est := 0
	for _, c := range p.Clients {
		for _, o := range c.Ops {
			est += 48 + o.Size*3/2
		}
	}
	total := 0
	for _, c := range p.Clients {
		total += len(c.Ops)
	}
	f := Fault{Conn: 0}
	// point enumerates (kind, side, offset); thorough walks every offset, quick strides
	kindSel := point % 6
	off := point / 6
	switch kindSel {
	case 0, 1, 2, 3:
		f.Kind = "cut"
		f.Side = int(kindSel & 1)
		f.RST = kindSel&2 != 0
		if tier == "quick" {
			off = off * 7 // stride, different residues are reached through other conversations
		}
		f.Offset = int64(off % uint64(est+1))
	case 4:
		f.Kind = "closeconn"
		f.AtOp = 1 + int(off%uint64(total))
	case 5:
		f.Kind = []string{"killserver", "closeserver"}[off&1]
		f.AtOp = 1 + int((off/2)%uint64(total))
	}
	p.Faults = []Fault{f}
	p.Params = map[string]int{"conv": int(conv), "est": est, "settle": 1}
	return p
}

func checkC03(w *World, run *simrt.Run) {
	// (a) nobody hangs: every call has completed by the end of the run
	// the moment the connection was lost (byte-offset cut, or the operation-triggered fault)
	lost := w.FaultSeq
	if pipe := w.ConnPipe[0]; pipe != nil && pipe.CutBy != "" && (lost == 0 || pipe.CutSeq < lost) {
		lost = pipe.CutSeq
	}
	for _, c := range w.Calls {
		if !c.Returned {
			w.Violate("C03.caller-hangs", "caller-hangs:"+c.Form, descCall(c)+": still outstanding after the connection ended and was torn down")
		} else if lost != 0 && w.TeardownSeq != 0 && lost < w.TeardownSeq && c.Invoke < w.TeardownSeq && c.Return > w.TeardownSeq {
			// the harness waits a second of simulated quiet before it tears the world down (which
			// closes the connection once more and releases whatever was still waiting)
			w.Violate("C03.caller-hangs", "caller-released-only-by-teardown:"+c.Form, descCall(c)+": the connection was lost, the call was still outstanding a second later and only completed when the harness closed everything")
		}
	}
	for _, s := range w.Streams {
		if s.ClientBlocked {
			w.Violate("C03.stream-reader-hangs", "stream-reader-hangs", fmt.Sprintf("stream %d: client ReadMessage still blocked after the connection ended", s.Idx))
		}
		if s.CallBlocked != "" {
			// opening and closing a stream are calls too (a request that waits for its acknowledgement)
			w.Violate("C03.caller-hangs", "caller-hangs:stream-"+s.CallBlocked, fmt.Sprintf("stream %d: the %s request never returned after the connection ended and was torn down", s.Idx, s.CallBlocked))
		}
	}
	// (b) once the loss has been reported (a call returned ErrShutdown), later calls fail at once with ErrShutdown
	var lossSeq uint64
	for _, c := range w.Calls {
		if c.Returned && c.ErrKind == "shutdown" && (lossSeq == 0 || c.Return < lossSeq) {
			lossSeq = c.Return
		}
	}
	if lossSeq != 0 {
		for _, c := range w.Calls {
			if c.Invoke <= lossSeq || !c.Returned {
				continue
			}
			if c.ErrKind != "shutdown" {
				w.Violate("C03.call-after-loss", "call-after-loss-not-shutdown:"+c.Form, fmt.Sprintf("%s: started after the loss was reported, returned %q", descCall(c), c.Err))
			} else if c.ReturnT != c.InvokeT && (c.Form == "call" || c.Form == "ping" || c.Form == "ctx") {
				// (for Go/RoundTrip the harness only sees when it collected the signal, not when it was sent)
				w.Violate("C03.call-after-loss", "call-after-loss-slow:"+c.Form, fmt.Sprintf("%s: started after the loss was reported, took %v of simulated time", descCall(c), c.ReturnT-c.InvokeT))
			}
		}
		w.Probe("loss-reported")
	}
	// (d) peer-side cut of the response stream: responses completely received before the cut succeed
	f := w.P.Faults[0]
	pipe := w.ConnPipe[0]
	if pipe == nil {
		return
	}
	if pipe.CutBy != "" {
		w.Probe("cut-fired")
		if f.Kind == "cut" {
			w.Points = append(w.Points, fmt.Sprintf("conv%d/cut/side%d/rst=%v/off%d", w.P.Params["conv"], f.Side, f.RST, f.Offset))
		} else {
			w.Points = append(w.Points, fmt.Sprintf("conv%d/%s/op%d", w.P.Params["conv"], f.Kind, f.AtOp))
		}
	}
	if f.Kind == "cut" && pipe.CutBy != "" {
		wi := w.wireOf(0)
		for _, fr := range wi.res {
			id, ok := wi.seqToID[fr.Seq]
			if !ok {
				continue
			}
			c := w.callByID(id)
			if c == nil || c.Form == "ctx" || c.Bad != "" {
				continue
			}
			w.Probe("response-complete-before-cut")
			if fr.Error == "" && c.Returned && c.Err != "" {
				w.Violate("C03.received-response-lost", "received-response-failed:"+c.Form, fmt.Sprintf("%s: its complete response frame (stream offset %d..%d) was delivered before the cut, yet the call failed", descCall(c), fr.Off, fr.End))
			}
		}
	}
	// a successful call always carries the right reply
	for _, c := range w.Calls {
		if c.Returned && c.Err == "" && c.Form != "ping" && !c.ReplyOK {
			w.Violate("C03.wrong-reply", "wrong-reply-after-cut", descCall(c)+": "+c.ReplyWhy)
		}
	}
}

// ------------------------------------------------------------------ C04

func genC04(r *simrt.Rand, tier string, idx uint64) *Plan {
	faulty := idx%3 == 2
	p := genBase(r, "c04", faulty)
	big := bigBudget(p)
	nclients := 1 + r.Intn(5)
	for c := 0; c < nclients; c++ {
		cp := ClientPlan{Conn: r.Intn(len(p.Conns))}
		cp.Ops = mixedOps(r, 1+r.Intn(10), &big, nil)
		if r.Chance(1, 5) {
			cp.Ops = append(cp.Ops, Op{Kind: "call", Bad: "method", Size: 4, CtxBuf: -1})
		}
		p.Clients = append(p.Clients, cp)
	}
	if p.Codec != "bytes" && r.Chance(1, 3) {
		conn := r.Intn(len(p.Conns))
		p.Streams = []StreamPlan{{Conn: conn, Push: r.Intn(2), Echo: true}}
		p.Clients = append(p.Clients, ClientPlan{Conn: conn, Ops: []Op{{Kind: "sopen"}, {Kind: "swrite", N: 2}, {Kind: "sread", N: 2 + p.Streams[0].Push}, {Kind: "sclose"}}})
	}
	if faulty {
		total := 0
		for _, c := range p.Clients {
			total += len(c.Ops)
		}
		f := Fault{Conn: r.Intn(len(p.Conns)), AtOp: 1 + r.Intn(total), RST: r.Bool()}
		f.Kind = []string{"cut", "closeconn", "killserver"}[r.Intn(3)]
		f.Server = p.Conns[f.Conn].Server
		if r.Bool() {
			f.Kind, f.AtOp, f.Side, f.Offset = "cut", 0, r.Intn(2), int64(r.Intn(1500))
		}
		p.Faults = append(p.Faults, f)
	} else if idx%7 == 6 && p.Codec != "bytes" && p.Conns[0].Server == 0 {
		// a peer that writes a burst of well-formed requests and closes its side at once (FIN after the
		// last byte): everything the server received is still executed, once
		var ops []PuppetOp
		for i := 0; i < 1+r.Intn(8); i++ {
			ops = append(ops, PuppetOp{Kind: "valid", Size: r.Intn(40)})
		}
		ops = append(ops, PuppetOp{Kind: "close"})
		p.Puppets = [][]PuppetOp{ops}
		p.Params = map[string]int{"burstfin": 1}
	} else if idx%5 == 4 && p.Codec != "bytes" && p.Conns[0].Server == 0 {
		// a peer that sends pings carrying other upgrade bits, method names and bodies
		if len(p.Streams) == 0 {
			p.Streams = []StreamPlan{{Conn: 0, Echo: true}}
		}
		p.Streams[0].Conn = 0
		var ops []PuppetOp
		if r.Bool() {
			ops = append(ops, PuppetOp{Kind: "sopen"})
		}
		for i := 0; i < 3+r.Intn(8); i++ {
			op := PuppetOp{Kind: "hb", Val: r.Intn(256), N: r.Intn(3), Pos: 0}
			if len(ops) > 0 && ops[0].Kind == "sopen" && r.Chance(1, 3) {
				op.Pos = 1
			}
			if r.Bool() {
				op.Size = 1 + r.Intn(40)
			}
			ops = append(ops, op)
			if r.Chance(1, 3) {
				ops = append(ops, PuppetOp{Kind: "valid", Size: r.Intn(20)})
			}
		}
		ops = append(ops, PuppetOp{Kind: "probe"}, PuppetOp{Kind: "sleep", N: 5000})
		p.Puppets = [][]PuppetOp{ops}
		p.Params = map[string]int{"hb": 1}
	}
	return p
}

func checkC04(w *World, run *simrt.Run) {
	execs := map[uint64][]*ExecRec{}
	for _, e := range w.Execs {
		if e.Stream {
			continue
		}
		execs[e.ID] = append(execs[e.ID], e)
	}
	puppetValid := map[uint64]bool{}
	for _, pc := range w.Puppets {
		for _, id := range pc.sent {
			puppetValid[id] = true
		}
	}
	for id, es := range execs {
		c := w.callByID(id)
		if c == nil && puppetValid[id] {
			if len(es) > 1 {
				w.Violate("C04.duplicate-execution", "duplicate-execution:puppet", fmt.Sprintf("request id %d of the raw peer: handler ran %d times", id, len(es)))
			}
			continue
		}
		if c == nil {
			sig := "phantom-execution"
			if w.P.Params["hb"] == 1 {
				sig = "ping-invoked-handler"
			}
			w.Violate("C04.phantom-execution", sig, fmt.Sprintf("handler %s ran for id %d which no client sent as a request", es[0].Shape, id))
			continue
		}
		if len(es) > 1 {
			w.Violate("C04.duplicate-execution", "duplicate-execution:"+c.Form, fmt.Sprintf("%s: handler ran %d times", descCall(c), len(es)))
		}
		for _, e := range es {
			if !e.ArgOK || e.ArgLen != c.Size {
				w.Violate("C04.wrong-arguments", "wrong-arguments", fmt.Sprintf("%s: handler saw %d argument bytes, digest ok=%v", descCall(c), e.ArgLen, e.ArgOK))
			}
			if c.Bad != "" {
				w.Violate("C04.phantom-execution", "execution-of-invalid-request:"+c.Bad, descCall(c)+": a handler ran for a request that names no handler / has undecodable arguments")
			}
		}
	}
	if w.P.Params["hb"] == 1 {
		// pings with odd flags: answered exactly once, no stream handler started, no stream message invented
		starts := 0
		for _, e := range w.Execs {
			if e.Stream {
				starts++
			}
		}
		opens := 0
		for _, s := range w.Streams {
			if s.Opened || s.OpenErr != "" {
				opens++
			}
		}
		for _, pc := range w.Puppets {
			opens += pc.sopens
			frames := DecodeStream(pc.rx, w.P.Header, false)
			for _, seq := range pc.hbSeqs {
				n := 0
				for _, f := range frames {
					if f.Seq == seq {
						n++
					}
				}
				if n != 1 && !pc.closedByPeer {
					w.Violate("C04.ping", "ping-with-odd-flags-not-answered-once", fmt.Sprintf("heartbeat frame with sequence number %d got %d responses", seq, n))
				}
			}
			w.Probes["odd-pings-sent"] += len(pc.hbSeqs)
		}
		if starts > opens {
			w.Violate("C04.ping", "ping-started-stream-handler", fmt.Sprintf("%d stream handlers started, only %d streams were opened", starts, opens))
		}
		for _, s := range w.Streams {
			want := len(s.CSent)
			for _, pc := range w.Puppets {
				want += pc.smsgs
			}
			if len(s.SGot) > want {
				w.Violate("C04.ping", "ping-delivered-as-stream-message", fmt.Sprintf("stream %d: handler read %d messages, only %d were sent", s.Idx, len(s.SGot), want))
			}
		}
	}
	if w.P.Params["burstfin"] == 1 {
		for _, pc := range w.Puppets {
			for _, id := range pc.sent {
				if n := len(execs[id]); n != 1 {
					w.Violate("C04.lost-execution", "request-received-before-disconnect-executions!=1", fmt.Sprintf("request id %d was written completely before the peer closed its side (FIN), its handler ran %d times", id, n))
				}
			}
			w.Probes["burst-then-fin-requests"] += len(pc.sent)
		}
	}
	faultFree := len(w.P.Faults) == 0
	for _, c := range w.Calls {
		if c.Form == "ping" {
			continue
		}
		n := len(execs[c.ID])
		if c.Returned && c.Err == "" && n != 1 {
			w.Violate("C04.success-without-execution", "success-executions!=1:"+c.Form, fmt.Sprintf("%s: reported successful, executed %d times", descCall(c), n))
		}
		if faultFree && c.Bad == "" && c.Form != "ctx" && n != 1 {
			w.Violate("C04.lost-request", "fault-free-executions!=1:"+c.Form, fmt.Sprintf("%s: executed %d times in a fault-free run", descCall(c), n))
		}
	}
	// responses on the wire: at most one per (connection, seq) for unary requests; requests at most one per call
	for ci := range w.Conns {
		wi := w.wireOf(ci)
		nres := map[uint64]int{}
		for _, f := range wi.res {
			nres[f.Seq]++
		}
		nreq := map[uint64]int{}
		for _, f := range wi.req {
			if f.Stream == 0 {
				nreq[f.Seq]++
			}
		}
		for seq, id := range wi.seqToID {
			if nres[seq] > 1 {
				w.Violate("C04.duplicate-response", "duplicate-response", fmt.Sprintf("conn %d seq %d (call %d): %d responses on the wire", ci, seq, id, nres[seq]))
			}
			if nreq[seq] > 1 {
				w.Violate("C04.duplicate-request", "duplicate-request", fmt.Sprintf("conn %d seq %d (call %d): %d request frames on the wire", ci, seq, id, nreq[seq]))
			}
			if faultFree && nres[seq] != 1 {
				w.Violate("C04.lost-response", "fault-free-responses!=1", fmt.Sprintf("conn %d seq %d (call %d): %d responses on the wire in a fault-free run", ci, seq, id, nres[seq]))
			}
		}
		// a ping is answered without a handler: its response carries no body and no error
		for _, f := range wi.req {
			if f.Heartbeat {
				w.Probe("ping-on-wire")
			}
		}
	}
}

// ------------------------------------------------------------------ C05

func genC05(r *simrt.Rand, tier string, idx uint64) *Plan {
	p := genBase(r, "c05", false)
	for i := range p.Servers {
		p.Servers[i].Pipelining = true
	}
	big := bigBudget(p)
	if big > 0 {
		big = 1
	}
	multi := idx%4 == 3 // several issuing goroutines per connection: order is taken from the wire
	for ci := range p.Conns {
		p.Conns[ci].Pipelining = r.Chance(2, 3)
		p.Conns[ci].DirectSet = genDirectSet(r)
		if r.Chance(1, 3) {
			p.Conns[ci].OptOrder = 1 + r.Intn(2) // the options are applied in another order, the direct-I/O one twice
		}
		ng := 1
		if multi {
			ng = 2 + r.Intn(2)
		}
		for g := 0; g < ng; g++ {
			cp := ClientPlan{Conn: ci}
			n := 2 + r.Intn(10)
			for i := 0; i < n; i++ {
				op := Op{Kind: []string{"gos", "gos", "rts"}[r.Intn(3)], Shape: r.Intn(4), Size: genSize(r, &big), Rep: genSize(r, &big), CtxBuf: -1}
				if r.Chance(1, 8) {
					op.Bad = []string{"method", "args", "encode"}[r.Intn(3)] // rejected before any handler runs
				} else if r.Chance(1, 3) {
					op.Flags |= FlFail
					op.Arg = uint32(1 + r.Intn(40))
				} else if r.Chance(1, 2) {
					op.Flags |= FlSlow
					op.Arg = uint32(1 + r.Intn(300))
				}
				if r.Chance(1, 3) {
					op.Flags |= FlYield
				}
				cp.Ops = append(cp.Ops, op)
			}
			cp.Ops = append(cp.Ops, Op{Kind: "waits"})
			p.Clients = append(p.Clients, cp)
		}
	}
	p.Params = map[string]int{"multi": b2i(multi)}
	if idx%5 == 4 {
		// the client goes away while several of its requests are queued or executing on the server:
		// what was received is still executed one at a time and in order
		for i := range p.Clients {
			for j := range p.Clients[i].Ops {
				op := &p.Clients[i].Ops[j]
				if (op.Kind == "gos" || op.Kind == "rts") && op.Bad == "" && op.Flags&FlFail == 0 && r.Chance(1, 2) {
					op.Flags |= FlSlow
					op.Arg = uint32(50 + r.Intn(400))
				}
			}
		}
		f := Fault{Kind: []string{"closeconn", "cut"}[r.Intn(2)], Conn: r.Intn(len(p.Conns)), RST: r.Bool()}
		p.Clients = append(p.Clients, ClientPlan{Conn: f.Conn, Ops: []Op{{Kind: "sleep", N: 20 + r.Intn(600)}, {Kind: "spin", N: r.Intn(6)}, {Kind: "fault", Fault: &f}}})
		p.Params["disconnect"] = 1
	}
	return p
}

func b2i(b bool) int {
	if b {
		return 1
	}
	return 0
}

func checkC05(w *World, run *simrt.Run) {
	execByID := map[uint64]*ExecRec{}
	for _, e := range w.Execs {
		if !e.Stream {
			execByID[e.ID] = e
		}
	}
	for ci := range w.Conns {
		if w.ConnPipe[ci] == nil {
			continue
		}
		wi := w.wireOf(ci)
		// order of request frames on the wire
		var order []uint64
		for _, f := range wi.req {
			if id, ok := wi.seqToID[f.Seq]; ok {
				order = append(order, id)
			}
		}
		// handler intervals: disjoint and in wire order
		var prev *ExecRec
		var prevID uint64
		for _, id := range order {
			e := execByID[id]
			if e == nil {
				continue
			}
			if prev != nil {
				if e.Start < prev.End {
					if e.Start > prev.Start {
						w.Violate("C05.overlap", "handlers-overlap", fmt.Sprintf("conn %d: handler of call %d started (event %d) before handler of call %d ended (event %d)", ci, id, e.Start, prevID, prev.End))
					} else {
						w.Violate("C05.exec-order", "execution-out-of-order", fmt.Sprintf("conn %d: call %d was sent after call %d but executed before it", ci, id, prevID))
					}
				}
			}
			prev, prevID = e, id
		}
		// responses in the same order
		pos := map[uint64]int{}
		for i, id := range order {
			pos[id] = i
		}
		last := -1
		var lastID uint64
		for _, f := range wi.res {
			id, ok := wi.seqToID[f.Seq]
			if !ok {
				continue
			}
			if pos[id] < last {
				w.Violate("C05.response-order", "responses-out-of-order", fmt.Sprintf("conn %d: response of call %d written after response of call %d, requests were sent in the opposite order", ci, id, lastID))
			}
			last, lastID = pos[id], id
		}
	}
	// client pipelining: completions arrive on the shared Done channel in issue order
	// (not judged when the connection is cut: the property's histories are fault-free on that side)
	for cli, arr := range w.Arrivals {
		cp := w.P.Clients[cli]
		if !w.P.Conns[cp.Conn].Pipelining || w.P.Params["multi"] == 1 || w.P.Params["disconnect"] == 1 {
			continue
		}
		// calls whose request could not be encoded fail on the client without ever being sent; they
		// are judged separately (a known finding, see known_findings.json) so that the order of all
		// other completions keeps its own signatures
		var lastID uint64
		for _, id := range arr {
			if c := w.callByID(id); c != nil && c.Bad == "encode" {
				continue
			}
			if id < lastID {
				c := w.callByID(id)
				w.Violate("C05.completion-order", "completion-out-of-issue-order:"+okfail(c), fmt.Sprintf("client %d conn %d: call %d signalled after call %d which was issued later (arrivals %v)", cli, cp.Conn, id, lastID, arr))
				break
			}
			lastID = id
		}
		lastID = 0
		for _, id := range arr {
			if id < lastID {
				a, b := w.callByID(id), w.callByID(lastID)
				if (a != nil && a.Bad == "encode") || (b != nil && b.Bad == "encode") {
					w.Violate("C05.completion-order", "completion-out-of-issue-order:request-that-could-not-be-encoded", fmt.Sprintf("client %d conn %d: call %d signalled after call %d which was issued later; one of them failed on the client because its request could not be encoded, and that failure is signalled at once instead of in issue order (arrivals %v)", cli, cp.Conn, id, lastID, arr))
					break
				}
			}
			if id > lastID {
				lastID = id
			}
		}
		w.Probe("shared-done-order-checked")
	}
}

func okfail(c *CallRec) string {
	if c != nil && c.Flags&FlFail != 0 {
		return "failed-call-late"
	}
	return "successful-call-late"
}

// ------------------------------------------------------------------ C06

func genC06(r *simrt.Rand, tier string, idx uint64) *Plan {
	p := genBase(r, "c06", false)
	p.Sim.PoolMiss = 0
	if idx%4 == 0 {
		p.Sim.PoolMiss = 300
	}
	big := bigBudget(p)
	if big > 0 {
		big = 1
	}
	racing := idx%2 == 1
	if racing {
		// failing calls whose caller gives up (context deadline) at the very instant the error
		// response arrives: the abandoned call's completion must not land on a neighbour
		p.Net.MaxLatency = 0
	}
	nclients := 1 + r.Intn(4)
	for c := 0; c < nclients; c++ {
		cp := ClientPlan{Conn: r.Intn(len(p.Conns))}
		n := 2 + r.Intn(10)
		for i := 0; i < n; i++ {
			op := genCallOp(r, &big)
			if racing && r.Chance(1, 2) {
				d := 50 + r.Intn(1500)
				op.Kind, op.Bad = "ctx", ""
				op.Flags = FlFail | FlSlow
				op.Arg = uint32(d) // handler sleeps d µs, then fails with an error text of length d
				op.Timeout = d + []int{0, 0, 0, -1, 1}[r.Intn(5)]
				cp.Ops = append(cp.Ops, op)
				continue
			}
			switch r.Intn(9) {
			case 0, 1, 2:
				op.Flags |= FlFail
				switch r.Intn(4) {
				case 0:
					op.Arg = 1
				case 1:
					op.Arg = uint32(2 + r.Intn(200))
				case 2:
					op.Arg = uint32(1000 + r.Intn(3000))
				case 3:
					if big >= 0 {
						op.Arg = uint32(20000 + r.Intn(20000))
					} else {
						op.Arg = 300
					}
				}
				if r.Chance(1, 10) {
					op.Arg = shutdownTextArg // the handler's error reads "The connection is shut down"
				}
			case 3:
				op.Bad = "method"
			case 4:
				op.Bad = "args"
			case 5:
				if p.Codec == "code" || p.Codec == "pb" {
					op.Flags |= FlBadReply
				}
			case 6:
				if p.Codec != "bytes" {
					op.Bad = "encode"
				}
			}
			cp.Ops = append(cp.Ops, op)
		}
		// further traffic after the failures, so that pooled buffers are reused
		for i := 0; i < 4+r.Intn(8); i++ {
			cp.Ops = append(cp.Ops, Op{Kind: "call", Shape: r.Intn(4), Size: genSize(r, &big), Rep: genSize(r, &big), CtxBuf: -1})
		}
		p.Clients = append(p.Clients, cp)
	}
	if (p.Codec == "code" || p.Codec == "pb") && r.Chance(1, 3) {
		// a stream whose handler tries to push a message that cannot be encoded: an error on the
		// server's write path that must not reach any ordinary call
		conn := r.Intn(len(p.Conns))
		push := 1 + r.Intn(3)
		p.Streams = []StreamPlan{{Conn: conn, BadPush: true, Push: push, Echo: true}}
		p.Clients = append(p.Clients, ClientPlan{Conn: conn, Ops: []Op{{Kind: "sleep", N: r.Intn(300)}, {Kind: "sopen"}, {Kind: "sread", N: push}, {Kind: "swrite", N: 1}, {Kind: "sread", N: 1}, {Kind: "sclose"}}})
	}
	return p
}

func checkC06(w *World, run *simrt.Run) {
	wires := map[int]*wire{}
	for _, c := range w.Calls {
		if !c.Returned || c.Form == "ping" {
			continue
		}
		shouldFail := c.Flags&(FlFail|FlBadReply) != 0 || c.Bad != ""
		if c.Form == "ctx" && (c.ErrKind == "deadline" || c.ErrKind == "canceled") {
			continue
		}
		if shouldFail && c.Err == "" {
			w.Violate("C06.failure-lost", "failing-call-succeeded:"+failKind(c), descCall(c)+": the call should have failed")
			continue
		}
		if !shouldFail {
			if c.Err != "" {
				w.Violate("C06.error-misdelivered", "healthy-call-failed:"+c.Form, descCall(c)+": a call that should succeed received an error")
			} else if !c.ReplyOK {
				w.Violate("C06.neighbour-corrupted", "neighbour-reply-wrong", descCall(c)+": "+c.ReplyWhy)
			}
			continue
		}
		// the call failed as it should: text, stability, reply untouched
		if c.ReplyTouched {
			w.Violate("C06.reply-clobbered", "reply-modified-on-failure:"+failKind(c), descCall(c)+": reply object was modified although the call failed")
		}
		if c.ErrAtEnd != c.Err {
			w.Violate("C06.error-text-unstable", "error-text-changed-later:"+w.P.Header, fmt.Sprintf("%s: error text read %q at return and %q at end of run", descCall(c), clip(c.Err), clip(c.ErrAtEnd)))
		}
		if c.Bad == "encode" {
			// (judged when nothing was outstanding before: a call abandoned by its context stays
			// counted until its response arrives, which may happen meanwhile)
			if c.NumCallsAfter != c.NumCallsBefore && c.NumCallsBefore == 0 && c.Form == "call" && c.Alone {
				w.Violate("C06.residue", "encode-failure-leaves-residue", fmt.Sprintf("%s: NumCalls %d before, %d after the failed encode", descCall(c), c.NumCallsBefore, c.NumCallsAfter))
			}
			continue
		}
		if c.Flags&FlFail != 0 {
			want := ErrText(c.ID, int(c.Arg))
			if c.Arg == shutdownTextArg {
				want = rpc.ErrShutdown.Error()
			}
			if c.Err != want {
				w.Violate("C06.error-text", "handler-error-text-differs:"+w.P.Header, fmt.Sprintf("%s: got %q, handler returned %q", descCall(c), clip(c.Err), clip(want)))
			}
		}
		wi := wires[c.Conn]
		if wi == nil {
			wi = w.wireOf(c.Conn)
			wires[c.Conn] = wi
		}
		if seq, ok := wi.idToSeq[c.ID]; ok {
			for _, f := range wi.res {
				if f.Seq == seq && f.Error != "" && f.Error != c.Err {
					w.Violate("C06.error-text", "error-text-differs-from-wire:"+w.P.Header, fmt.Sprintf("%s: got %q, server wrote %q", descCall(c), clip(c.Err), clip(f.Error)))
				}
			}
		}
	}
}

func failKind(c *CallRec) string {
	switch {
	case c.Bad != "":
		return c.Bad
	case c.Flags&FlBadReply != 0:
		return "badreply"
	}
	return "handler"
}

func clip(s string) string {
	if len(s) > 90 {
		return s[:90] + "…"
	}
	return s
}

func init() {
	register(&Scenario{Property: "C02", Name: "c02", Gen: genC02, Main: (*World).RunConnWorld, Check: checkC02})
	register(&Scenario{Property: "C03", Name: "c03", Gen: genC03, Main: (*World).RunConnWorld, Check: checkC03})
	register(&Scenario{Property: "C04", Name: "c04", Gen: genC04, Main: (*World).RunConnWorld, Check: checkC04})
	register(&Scenario{Property: "C05", Name: "c05", Gen: genC05, Main: (*World).RunConnWorld, Check: checkC05})
	register(&Scenario{Property: "C06", Name: "c06", Gen: genC06, Main: (*World).RunConnWorld, Check: checkC06})
}

var _ = sort.Ints
