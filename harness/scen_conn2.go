package harness

import (
	"fmt"
	"time"

	"verif/sim/simrt"
)

func idsEqual(a, b []uint64) bool {
	if len(a) != len(b) {
		return false
	}
	for i := range a {
		if a[i] != b[i] {
			return false
		}
	}
	return true
}

func isPrefix(a, b []uint64) bool { // a is a prefix of b
	if len(a) > len(b) {
		return false
	}
	for i := range a {
		if a[i] != b[i] {
			return false
		}
	}
	return true
}

func streamCodec(r *simrt.Rand, p *Plan) {
	if p.Codec == "bytes" {
		p.Codec = []string{"json", "code", "pb"}[r.Intn(3)]
	}
}

// genStreamClient scripts one stream and the client goroutine that drives it.
func genStreamClient(r *simrt.Rand, p *Plan, conn int, big *int) {
	sp := StreamPlan{Conn: conn, RBuf: []int{0, 0, 3, 17, 100, 5000, 70000}[r.Intn(7)], Empty: []int{0, 0, 2, 3}[r.Intn(4)]}
	switch r.Intn(4) {
	case 0: // client writes first, server echoes
		sp.Echo = true
	case 1: // server pushes immediately after open
		sp.Push = 1 + r.Intn(5)
	case 2: // both at once
		sp.Push = 1 + r.Intn(4)
		sp.Echo = true
	case 3: // client writes only
	}
	k := len(p.Streams)
	nw := r.Intn(7)
	if sp.Echo && nw == 0 {
		nw = 1
	}
	for i := 0; i < nw; i++ {
		sp.Sizes = append(sp.Sizes, 1+genSize(r, big))
	}
	for i := 0; i < sp.Push; i++ {
		sp.PSizes = append(sp.PSizes, 1+genSize(r, big))
	}
	ops := []Op{{Kind: "sopen", Stream: k}}
	written, read := 0, 0
	expect := sp.Push
	for written < nw {
		n := 1 + r.Intn(nw-written)
		ops = append(ops, Op{Kind: "swrite", Stream: k, N: n})
		written += n
		if sp.Echo {
			expect += n
		}
		if r.Chance(1, 8) && written < nw {
			ops = append(ops, Op{Kind: "swrite", Stream: k, Bad: "encode"})
		}
		if r.Bool() && read < expect {
			m := 1 + r.Intn(expect-read)
			ops = append(ops, Op{Kind: "sread", Stream: k, N: m})
			read += m
		}
	}
	if read < expect {
		ops = append(ops, Op{Kind: "sread", Stream: k, N: expect - read})
	}
	p.Streams = append(p.Streams, sp)
	p.Clients = append(p.Clients, ClientPlan{Conn: conn, Ops: ops})
}

// ------------------------------------------------------------------ C09

func genC09(r *simrt.Rand, tier string, idx uint64) *Plan {
	faulty := idx%5 == 4
	p := genBase(r, "c09", faulty)
	streamCodec(r, p)
	// NoCopy on either side must not change what a stream delivers (handlers and readers here
	// look at a message only until their next read)
	// (only with the json body codec: NoCopy is specified for codecs that do not alias their
	// input, and a decoded code/pb message aliases a buffer NoCopy has already recycled)
	if p.Codec == "json" {
		for i := range p.Servers {
			p.Servers[i].NoCopy = r.Chance(1, 2)
		}
		for i := range p.Conns {
			p.Conns[i].NoCopy = r.Chance(1, 2)
		}
	}
	big := bigBudget(p)
	if big > 0 {
		big = 1
	}
	ns := 1 + r.Intn(3)
	for i := 0; i < ns; i++ {
		genStreamClient(r, p, r.Intn(len(p.Conns)), &big)
	}
	// unary traffic and pings on the same connections
	for c := 0; c < r.Intn(3); c++ {
		cp := ClientPlan{Conn: r.Intn(len(p.Conns))}
		cp.Ops = mixedOps(r, 1+r.Intn(6), &big, nil)
		p.Clients = append(p.Clients, cp)
	}
	p.Params = map[string]int{"settle": 1}
	if faulty {
		total := 0
		for _, c := range p.Clients {
			total += len(c.Ops)
		}
		f := Fault{Conn: r.Intn(len(p.Conns)), AtOp: 1 + r.Intn(total), RST: r.Bool()}
		f.Kind = []string{"cut", "closeconn"}[r.Intn(2)]
		p.Faults = append(p.Faults, f)
	}
	return p
}

func checkC09(w *World, run *simrt.Run) {
	faulty := len(w.P.Faults) > 0
	for _, s := range w.Streams {
		if !s.Opened {
			if !faulty {
				w.Violate("C09.open-failed", "stream-open-failed", fmt.Sprintf("stream %d: NewStream failed in a fault-free run: %s", s.Idx, s.OpenErr))
			}
			continue
		}
		if s.Foreign > 0 {
			w.Violate("C09.misrouted", "stream-message-misrouted", fmt.Sprintf("stream %d received %d messages that belong to another stream", s.Idx, s.Foreign))
		}
		if s.BadPayload > 0 {
			w.Violate("C09.corrupted", "stream-message-corrupted", fmt.Sprintf("stream %d received %d messages with a wrong payload", s.Idx, s.BadPayload))
		}
		desc := fmt.Sprintf("stream %d (push=%d echo=%v): server wrote %v, client read %v; client wrote %v, server read %v", s.Idx, s.Plan.Push, s.Plan.Echo, s.SSent, s.CGot, s.CSent, s.SGot)
		if !isPrefix(s.CGot, s.SSent) {
			w.Violate("C09.order", "server-to-client-sequence-differs", desc)
		} else if !faulty && !idsEqual(s.CGot, s.SSent) {
			sig := "server-to-client-message-lost"
			if len(s.CGot) < s.Plan.Push {
				sig = "pushed-before-open-ack-lost"
			}
			w.Violate("C09.loss", sig, desc)
		}
		if !isPrefix(s.SGot, s.CSent) {
			w.Violate("C09.order", "client-to-server-sequence-differs", desc)
		} else if !faulty && !idsEqual(s.SGot, s.CSent) {
			w.Violate("C09.loss", "client-to-server-message-lost", desc)
		}
		if len(s.SSent) > 0 && len(s.CGot) > 0 {
			w.Probe("stream-s2c-delivered")
		}
		if s.Plan.Push > 0 && len(s.CGot) >= s.Plan.Push {
			w.Probe("pushed-messages-delivered")
		}
	}
	for _, c := range w.Calls {
		if c.Returned && c.Err == "" && c.Form != "ping" && !c.ReplyOK {
			w.Violate("C09.unary-corrupted", "unary-call-corrupted-by-stream-traffic", descCall(c)+": "+c.ReplyWhy)
		}
		if !faulty && c.Returned && c.Err != "" && c.Form != "ctx" {
			w.Violate("C09.unary-failed", "unary-call-failed-next-to-streams", descCall(c))
		}
	}
}

// ------------------------------------------------------------------ C10

func genC10(r *simrt.Rand, tier string, idx uint64) *Plan {
	p := genBase(r, "c10", true)
	streamCodec(r, p)
	p.Servers = p.Servers[:1]
	p.Conns = []ConnCfg{genConn(r, 1)}
	// accept modes are enumerated: non-poll, poll fallback, poll epoll-model
	switch idx % 3 {
	case 0:
		p.Servers[0].Poll = false
	case 1:
		p.Servers[0].Poll = true
		p.Net.PollMode = 0
	case 2:
		p.Servers[0].Poll = true
		p.Net.PollMode = 1
	}
	small := -1
	ns := 1 + r.Intn(3)
	for k := 0; k < ns; k++ {
		sp := StreamPlan{Conn: 0, Echo: true, Push: r.Intn(2), RBuf: []int{0, 0, 17, 5000}[r.Intn(4)]}
		nw := 1 + r.Intn(3)
		for i := 0; i < nw; i++ {
			sp.Sizes = append(sp.Sizes, 1+genSize(r, &small))
		}
		p.Streams = append(p.Streams, sp)
		// write, read the echoes, then block in a read that can only end by shutdown
		ops := []Op{{Kind: "sopen", Stream: k}, {Kind: "swrite", Stream: k, N: nw}, {Kind: "sread", Stream: k, N: nw + sp.Push}}
		if k == 0 || r.Chance(2, 3) {
			ops = append(ops, Op{Kind: "sread", Stream: k, N: 1}) // blocks until the stream or connection ends
			ops = append(ops, Op{Kind: "safter", Stream: k})
		} else {
			// sibling that keeps working after the fault (only meaningful for closestream)
			ops = append(ops, Op{Kind: "sleep", N: 2000}, Op{Kind: "swrite", Stream: k, N: 1}, Op{Kind: "sread", Stream: k, N: 1})
			p.Streams[k].Sizes = append(p.Streams[k].Sizes, 9)
		}
		p.Clients = append(p.Clients, ClientPlan{Conn: 0, Ops: ops})
		if k == 0 && r.Chance(1, 2) {
			// two goroutines blocked in ReadMessage on each end of the stream that will be hit
			p.Streams[0].Readers2 = true
			p.Clients = append(p.Clients, ClientPlan{Conn: 0, Ops: []Op{{Kind: "await", Stream: 0, Shape: 0}, {Kind: "sread", Stream: 0, N: 1 + r.Intn(2)}}})
		}
	}
	// a sibling unary caller
	p.Clients = append(p.Clients, ClientPlan{Conn: 0, Ops: []Op{{Kind: "call", Size: 9, Rep: 9, CtxBuf: -1}, {Kind: "sleep", N: 2000}, {Kind: "call", Size: 9, Rep: 9, CtxBuf: -1}}})
	// the fault, fired by a dedicated goroutine after a PRNG number of scheduling rounds / simulated time
	f := Fault{Conn: 0, Stream: 0}
	switch (idx / 3) % 5 {
	case 0:
		f.Kind = "closestream"
	case 1:
		f.Kind = "cut"
	case 2:
		f.Kind = "cut"
		f.RST = true
	case 3:
		f.Kind = "closeconn"
	case 4:
		f.Kind = "killserver"
	}
	delay := []int{0, 0, 500, 1000}[r.Intn(4)]
	if r.Chance(1, 2) {
		// the fault follows a progress point of stream 0 at once: it lands while the reader on one
		// end is on its way into (or back into) ReadMessage, not only when it has long been parked
		nw0 := len(p.Streams[0].Sizes)
		aw := Op{Kind: "await", Stream: 0, Shape: r.Intn(5)}
		switch aw.Shape {
		case 1:
			aw.N = 1 + r.Intn(nw0+p.Streams[0].Push)
		case 2:
			aw.N = 1 + r.Intn(nw0)
		case 3:
			aw.N = 1 + r.Intn(nw0+p.Streams[0].Push)
		}
		p.Clients = append(p.Clients, ClientPlan{Conn: 0, Ops: []Op{aw, {Kind: "spin", N: r.Intn(6)}, {Kind: "fault", Fault: &f}}})
	} else {
		p.Clients = append(p.Clients, ClientPlan{Conn: 0, Ops: []Op{{Kind: "spin", N: r.Intn(40)}, {Kind: "sleep", N: delay}, {Kind: "fault", Fault: &f}}})
	}
	// streams that are being opened at the very moment of the fault
	if f.Kind != "closestream" {
		for c := 0; c < r.Intn(3); c++ {
			k := len(p.Streams)
			p.Streams = append(p.Streams, StreamPlan{Conn: 0, Echo: true, Sizes: []int{7}})
			p.Clients = append(p.Clients, ClientPlan{Conn: 0, Ops: []Op{{Kind: "spin", N: r.Intn(40)}, {Kind: "sleep", N: delay}, {Kind: "sopen", Stream: k}, {Kind: "swrite", Stream: k, N: 1}, {Kind: "sread", Stream: k, N: 2}}})
		}
	}
	if f.Kind != "closestream" && r.Chance(1, 2) {
		// a short-lived sibling: one goroutine closes it while another is writing to it, so a stream
		// message may reach the server after the close request; whatever that leaves behind must not
		// keep the other handlers from being released when the connection ends
		k := len(p.Streams)
		p.Streams = append(p.Streams, StreamPlan{Conn: 0, Echo: true, Sizes: []int{7, 7, 7, 7}})
		p.Clients = append(p.Clients, ClientPlan{Conn: 0, Ops: []Op{{Kind: "sopen", Stream: k}, {Kind: "swrite", Stream: k, N: 1}, {Kind: "sread", Stream: k, N: 1}, {Kind: "spin", N: r.Intn(4)}, {Kind: "sclose", Stream: k}}})
		p.Clients = append(p.Clients, ClientPlan{Conn: 0, Ops: []Op{{Kind: "await", Stream: k, Shape: 1, N: 1}, {Kind: "spin", N: r.Intn(4)}, {Kind: "swrite", Stream: k, N: 1 + r.Intn(2)}}})
	}
	p.Faults = []Fault{f} // informational (AtOp==0 and kind!=cut@connect: nothing is armed from here)
	p.Faults[0].AtOp = -1
	p.Params = map[string]int{"settle": 1} // a second of quiet before the world is torn down
	return p
}

// releasedOnlyByTeardown: the fault fired, the harness then waited (at least a second of simulated
// quiet) and began to tear the world down, and only after that did the event at seq happen.
func releasedOnlyByTeardown(w *World, seq uint64) bool {
	return w.FaultSeq != 0 && w.TeardownSeq != 0 && w.FaultSeq < w.TeardownSeq && seq > w.TeardownSeq
}

func checkC10(w *World, run *simrt.Run) {
	f := w.P.Faults[0]
	wholeConn := f.Kind != "closestream"
	for _, s := range w.Streams {
		if !s.Opened {
			// the open may have been in flight when the connection ended: the client saw an
			// error, but a handler the server started for it must still be released
			if wholeConn && s.HandlerStart != 0 && (s.HandlerEnd == 0 || releasedOnlyByTeardown(w, s.HandlerEnd)) {
				w.Violate("C10.handler-stuck", "handler-of-in-flight-open-stuck:"+f.Kind+":"+w.acceptMode(), fmt.Sprintf("stream %d: the open was in flight when the connection ended (client got %q); the server started its handler, which never returned (accept mode %s)", s.Idx, s.OpenErr, w.acceptMode()))
			}
			continue
		}
		affected := wholeConn || s.Idx == f.Stream
		if !wholeConn && s.Idx == f.Stream && s.Closed && s.HandlerStart != 0 && (s.HandlerEnd == 0 || s.HandlerEnd > w.TeardownSeq) {
			// the connection lives on: it is the close of the stream itself that must release the handler,
			// not the teardown of the connection a second or more later
			w.Violate("C10.handler-stuck", "handler-not-released-by-stream-close:"+w.acceptMode(), fmt.Sprintf("stream %d: Close returned (%q) but the server handler was still running when the harness tore the connection down (accept mode %s)", s.Idx, s.CloseErr, w.acceptMode()))
		}
		if affected {
			if s.ClientBlocked || (wholeConn && s.ReadErrAtTeardown && w.FaultSeq != 0) {
				// (a read that only ends when the harness tears the world down, a second or more after
				// the fault, was not released by the fault)
				w.Violate("C10.client-reader-stuck", "client-read-stuck:"+f.Kind, fmt.Sprintf("stream %d: client ReadMessage still blocked when the harness tore the world down, after %s", s.Idx, f.Kind))
			}
			if s.HandlerStart != 0 && (s.HandlerEnd == 0 || (wholeConn && releasedOnlyByTeardown(w, s.HandlerEnd))) {
				w.Violate("C10.handler-stuck", "handler-stuck:"+f.Kind+":"+w.acceptMode(), fmt.Sprintf("stream %d: server handler never returned after %s (accept mode %s)", s.Idx, f.Kind, w.acceptMode()))
			}
			if s.AfterRead != "" && s.AfterRead != "stream-shutdown" {
				w.Violate("C10.after-close", "read-after-close-not-shutdown", fmt.Sprintf("stream %d: ReadMessage after the stream ended returned %q", s.Idx, s.AfterRead))
			}
			if s.AfterWrite != "" && s.AfterWrite != "stream-shutdown" {
				w.Violate("C10.after-close", "write-after-close-not-shutdown", fmt.Sprintf("stream %d: WriteMessage after the stream ended returned %q", s.Idx, s.AfterWrite))
			}
			if s.ClientReadErr != "" {
				w.Probe("blocked-reader-released")
			}
		} else {
			// sibling of a closed stream: must be undisturbed
			if s.ClientBlocked || (s.ClientReadErr != "" && !s.ReadErrAtTeardown) || s.ClientWriteErr != "" || !isPrefix(s.CGot, s.SSent) || s.Foreign > 0 || s.BadPayload > 0 {
				w.Violate("C10.sibling-disturbed", "sibling-stream-disturbed", fmt.Sprintf("stream %d: after closing stream %d: blocked=%v readErr=%q writeErr=%q got %v of %v", s.Idx, f.Stream, s.ClientBlocked, s.ClientReadErr, s.ClientWriteErr, s.CGot, s.SSent))
			} else {
				w.Probe("sibling-stream-ok")
			}
		}
	}
	if !wholeConn {
		for _, c := range w.Calls {
			if c.Returned && (c.Err != "" || !c.ReplyOK) {
				w.Violate("C10.sibling-disturbed", "sibling-call-disturbed", descCall(c)+": "+c.ReplyWhy)
			}
			if !c.Returned {
				w.Violate("C10.sibling-disturbed", "sibling-call-stuck", descCall(c))
			}
		}
	}
}

func (w *World) acceptMode() string {
	if !w.P.Servers[0].Poll {
		return "non-poll"
	}
	if w.P.Net.PollMode == 1 {
		return "poll-epoll-model"
	}
	return "poll-fallback"
}

// ------------------------------------------------------------------ C11

func genC11(r *simrt.Rand, tier string, idx uint64) *Plan {
	p := genBase(r, "c11", false)
	for i := range p.Servers {
		p.Servers[i].NoCopy = false
	}
	// buffer sizes near the payload sizes so that the same pool classes are hit
	p.Sim.PoolMiss = 0
	if idx%3 == 0 {
		p.Sim.PoolMiss = 300
	}
	big := bigBudget(p)
	if big > 0 {
		big = 1
	}
	nclients := 1 + r.Intn(4)
	for c := 0; c < nclients; c++ {
		cp := ClientPlan{Conn: r.Intn(len(p.Conns))}
		n := 2 + r.Intn(6)
		for i := 0; i < n; i++ {
			op := genCallOp(r, &big)
			if op.Size == 0 {
				op.Size = 16
			}
			op.Flags |= FlRetain
			if op.Kind == "ctx" {
				op.CtxBuf = ctxCap(r, op.Rep)
			}
			cp.Ops = append(cp.Ops, op)
		}
		// at least 4x further traffic in the same size classes
		first := cp.Ops
		for rep := 0; rep < 4; rep++ {
			for _, o := range first {
				o2 := o
				o2.Flags &^= FlRetain
				o2.Kind = "call"
				o2.CtxBuf = -1
				cp.Ops = append(cp.Ops, o2)
			}
		}
		p.Clients = append(p.Clients, cp)
	}
	if p.Codec != "bytes" && r.Chance(1, 2) {
		genStreamClient(r, p, r.Intn(len(p.Conns)), &big)
	}
	p.Params = map[string]int{"settle": 1}
	return p
}

// ctxCap picks a context-buffer capacity around the encoded reply size.
func ctxCap(r *simrt.Rand, rep int) int {
	l := rep + 12
	switch r.Intn(6) {
	case 0:
		return -1
	case 1:
		return max(1, l-1-r.Intn(8))
	case 2:
		return l
	case 3:
		return l + 1 + r.Intn(8)
	case 4:
		return 2 * l
	}
	return max(1, rep/2)
}

func max(a, b int) int {
	if a > b {
		return a
	}
	return b
}

// checkCtxBuffer verifies the caller-supplied buffer contract for one call.
func (w *World) checkCtxBuffer(c *CallRec, prop string) {
	if c.ctxBuf == nil || w.P.Codec == "json" {
		return
	}
	if c.Err != "" {
		return
	}
	// encoded length of the reply the handler produced
	rep := Msg{ID: c.ID, Flags: c.Flags, Server: c.reply.Server, Pad: make([]byte, c.Rep)}
	if w.P.Codec == "bytes" {
		var m Msg
		if _, err := m.get(*c.replyB); err == nil {
			rep.Server = m.Server
		}
	}
	if c.Flags&FlEmpty != 0 {
		rep = Msg{} // the handler returned the zero message
	}
	tmp := make([]byte, rep.size()+16)
	l := rep.put(tmp)
	if c.Flags&FlEmpty != 0 && (w.P.Codec == "pb" || w.P.Codec == "bytes") {
		l = 0 // which these codecs encode in zero bytes
	}
	buf := c.ctxBuf[:cap(c.ctxBuf)]
	from := l
	if cap(buf) < l {
		from = 0 // buffer too small: it must not be touched at all
	}
	for i := from; i < len(buf); i++ {
		if buf[i] != 0xA5 {
			w.Violate(prop+".ctx-buffer-overrun", "context-buffer-written-beyond-reply", fmt.Sprintf("%s: context buffer capacity %d, reply length %d, byte %d was modified", descCall(c), cap(buf), l, i))
			return
		}
	}
	if c.Rep > 0 {
		if cap(buf) >= l && !c.InCtxBuf {
			w.Violate(prop+".ctx-buffer-unused", "context-buffer-not-used-although-large-enough", fmt.Sprintf("%s: capacity %d >= reply length %d", descCall(c), cap(buf), l))
		}
		if cap(buf) < l && c.InCtxBuf {
			w.Violate(prop+".ctx-buffer-overrun", "reply-in-too-small-context-buffer", descCall(c))
		}
		if cap(buf) >= l {
			w.Probe("reply-in-context-buffer")
		} else {
			w.Probe("context-buffer-too-small")
		}
	}
}

func checkC11(w *World, run *simrt.Run) {
	for _, rb := range w.retainedBufs {
		if Digest(rb.b) != rb.digest {
			w.Violate("C11.mutated", "retained-"+rb.what+"-mutated", fmt.Sprintf("%s of id %d (%d bytes) changed after it was handed to user code", rb.what, rb.id, len(rb.b)))
		}
	}
	w.Probes["retained-buffers"] += len(w.retainedBufs)
	for _, c := range w.Calls {
		if c.Form == "ctx" {
			w.checkCtxBuffer(c, "C11")
		}
		// the bytes must also be right at the moment they are handed over (a buffer recycled before
		// its contents were copied out shows here, not as a later mutation)
		if c.Returned && c.Err == "" && c.Form != "ping" && !c.ReplyOK {
			w.Violate("C11.wrong-at-handover", "reply-wrong-at-handover:"+c.Form, descCall(c)+": "+c.ReplyWhy)
		}
	}
	for _, e := range w.Execs {
		if c := w.byID[e.ID]; c != nil && !e.Stream && c.Bad == "" && (!e.ArgOK || e.ArgLen != c.Size) {
			w.Violate("C11.wrong-at-handover", "handler-argument-wrong-at-handover", descCall(c))
		}
	}
	for _, st := range w.Streams {
		if st.BadPayload > 0 || st.Foreign > 0 {
			w.Violate("C11.wrong-at-handover", "stream-message-wrong-at-handover", fmt.Sprintf("stream %d: %d messages with damaged payload, %d carrying another stream's id (handler got %v, client got %v)", st.Idx, st.BadPayload, st.Foreign, st.SGot, st.CGot))
		}
	}
}

// ------------------------------------------------------------------ C19

func genC19(r *simrt.Rand, tier string, idx uint64) *Plan {
	p := genBase(r, "c19", false)
	// exact timing oracle: handlers run concurrently and the network adds no simulated delay
	p.Net.MaxLatency = 0
	for i := range p.Servers {
		p.Servers[i].Pipelining = false
	}
	big := bigBudget(p)
	if big > 0 {
		big = 1
	}
	nclients := 1 + r.Intn(5)
	for c := 0; c < nclients; c++ {
		cp := ClientPlan{Conn: r.Intn(len(p.Conns))}
		n := 1 + r.Intn(7)
		for i := 0; i < n; i++ {
			op := genCallOp(r, &big)
			op.Flags &^= FlSlow
			op.Arg = 0
			if r.Chance(2, 3) {
				op.Kind = "ctx"
				d := 50 + r.Intn(2000)
				switch r.Intn(7) {
				case 0: // answer well before the deadline
					op.Flags |= FlSlow
					op.Arg = uint32(d)
					op.Timeout = d + 1 + r.Intn(2000)
				case 1: // deadline before the answer
					op.Flags |= FlSlow
					op.Arg = uint32(d + 1 + r.Intn(2000))
					op.Timeout = d
				case 2: // same instant
					op.Flags |= FlSlow
					op.Arg = uint32(d)
					op.Timeout = d
				case 3: // never answered
					op.Flags |= FlNoAnswer
					op.Timeout = d
				case 4: // already cancelled
					op.Timeout = -1
				case 5: // immediate answer, generous deadline
					op.Timeout = 1000000
				case 6: // no deadline at all
				}
				op.CtxBuf = ctxCap(r, op.Rep)
			} else if r.Chance(1, 3) {
				op.Flags |= FlSlow
				op.Arg = uint32(1 + r.Intn(1500))
			}
			cp.Ops = append(cp.Ops, op)
			if r.Chance(1, 6) {
				cp.Ops = append(cp.Ops, Op{Kind: "ping"})
			}
		}
		p.Clients = append(p.Clients, cp)
	}
	// other kinds of traffic after calls have been abandoned: pings and streams (requests that carry
	// header flags) beside the unary siblings
	if p.Codec != "bytes" && r.Chance(1, 2) {
		for k := 0; k < 1+r.Intn(2); k++ {
			genStreamClient(r, p, r.Intn(len(p.Conns)), &big)
			cl := &p.Clients[len(p.Clients)-1]
			cl.Ops = append([]Op{{Kind: "sleep", N: 50 + r.Intn(3000)}}, cl.Ops...)
		}
	}
	p.Params = map[string]int{"settle": 1}
	return p
}

func checkC19(w *World, run *simrt.Run) {
	for _, c := range w.Calls {
		if !c.Returned {
			w.Violate("C19.stuck", "call-never-returned:"+c.Form, descCall(c))
			continue
		}
		if c.Form != "ctx" {
			// siblings of abandoned calls are unharmed
			if c.Form == "ping" && c.Err != "" {
				w.Violate("C19.sibling-harmed", "sibling-ping-failed", descCall(c))
			}
			if c.Form != "ping" && (c.Err != "" || !c.ReplyOK) {
				w.Violate("C19.sibling-harmed", "sibling-call-harmed:"+c.Form, descCall(c)+": "+c.ReplyWhy)
			}
			continue
		}
		took := c.ReturnT - c.InvokeT
		to := time.Duration(c.Timeout) * time.Microsecond
		slow := time.Duration(0)
		if c.Flags&FlSlow != 0 {
			slow = time.Duration(c.Arg) * time.Microsecond
		}
		switch {
		case c.Err == "":
			if !c.ReplyOK {
				w.Violate("C19.wrong-reply", "ctx-call-wrong-reply", descCall(c)+": "+c.ReplyWhy)
			}
		case c.ErrKind == "deadline" || c.ErrKind == "canceled":
		default:
			w.Violate("C19.wrong-error", "ctx-call-unexpected-error", descCall(c))
		}
		if c.Timeout > 0 && took > to {
			w.Violate("C19.late", "returned-after-deadline", fmt.Sprintf("%s: deadline %v, returned after %v", descCall(c), to, took))
		}
		if c.Timeout < 0 && took > 0 {
			w.Violate("C19.late", "cancelled-call-took-time", fmt.Sprintf("%s: context already cancelled, returned after %v", descCall(c), took))
		}
		// exact expectations from the fake clock
		noAnswer := c.Flags&FlNoAnswer != 0
		switch {
		case c.Timeout > 0 && !noAnswer && slow < to:
			if c.Err != "" {
				w.Violate("C19.reply-lost", "reply-before-deadline-not-returned", fmt.Sprintf("%s: handler answers after %v, deadline %v, got %q after %v", descCall(c), slow, to, c.Err, took))
			} else {
				w.Probe("reply-before-deadline")
			}
		case c.Timeout > 0 && (noAnswer || slow > to):
			if c.ErrKind != "deadline" {
				w.Violate("C19.no-timeout", "deadline-before-reply-not-reported", fmt.Sprintf("%s: handler answers after %v (never=%v), deadline %v, got err=%q", descCall(c), slow, noAnswer, to, c.Err))
			} else {
				w.Probe("deadline-before-reply")
				if took != to {
					w.Violate("C19.late", "deadline-not-prompt", fmt.Sprintf("%s: deadline %v, returned after %v", descCall(c), to, took))
				}
			}
		case c.Timeout > 0 && slow == to:
			w.Probe("deadline-and-reply-same-instant")
		case c.Timeout < 0:
			if c.Err == "" {
				w.Probe("cancelled-but-reply-won")
			}
		case c.Timeout == 0:
			if c.Err != "" {
				w.Violate("C19.wrong-error", "ctx-call-without-deadline-failed", descCall(c))
			}
		}
		w.checkCtxBuffer(c, "C19")
	}
	for _, st := range w.Streams {
		if st.ClientBlocked || st.CallBlocked != "" || !st.Opened || (st.ClientReadErr != "" && !st.ReadErrAtTeardown) || st.ClientWriteErr != "" || st.Foreign > 0 || st.BadPayload > 0 || !isPrefix(st.SGot, st.CSent) || !isPrefix(st.CGot, st.SSent) {
			w.Violate("C19.sibling-harmed", "sibling-stream-harmed", fmt.Sprintf("stream %d: opened=%v (%q) blocked=%v/%q readErr=%q writeErr=%q foreign=%d damaged=%d handler got %v of %v, client got %v of %v", st.Idx, st.Opened, st.OpenErr, st.ClientBlocked, st.CallBlocked, st.ClientReadErr, st.ClientWriteErr, st.Foreign, st.BadPayload, st.SGot, st.CSent, st.CGot, st.SSent))
		} else {
			w.Probe("sibling-stream-ok")
		}
	}
	for _, rb := range w.retainedBufs {
		if Digest(rb.b) != rb.digest {
			w.Violate("C19.late-response-corrupts", "retained-"+rb.what+"-mutated", "a reply changed after it was returned (late response of an abandoned call?)")
		}
	}
}

func init() {
	register(&Scenario{Property: "C09", Name: "c09", Gen: genC09, Main: (*World).RunConnWorld, Check: checkC09})
	register(&Scenario{Property: "C10", Name: "c10", Gen: genC10, Main: (*World).RunConnWorld, Check: checkC10})
	register(&Scenario{Property: "C11", Name: "c11", Gen: genC11, Main: (*World).RunConnWorld, Check: checkC11})
	register(&Scenario{Property: "C19", Name: "c19", Gen: genC19, Main: (*World).RunConnWorld, Check: checkC19})
}
