module verif/harness

go 1.26

require (
	github.com/anishathalye/porcupine v1.3.0
	github.com/hslam/netpoll v0.0.4-0.20230514092318-c286d2b379aa
	github.com/hslam/rpc v0.0.0
	github.com/hslam/socket v0.0.4-0.20230517140040-6048f4a0c39b
	verif/sim v0.0.0
)

require (
	github.com/hslam/atomic v1.0.0 // indirect
	github.com/hslam/buffer v0.0.0-20230217202846-e7b1b6ebf283 // indirect
	github.com/hslam/code v1.0.2-0.20210610150014-db5f483caa02 // indirect
	github.com/hslam/funcs v1.0.2-0.20220105101002-455c99d05c0a // indirect
	github.com/hslam/inproc v0.0.0-20210912032833-46957e53529f // indirect
	github.com/hslam/log v1.0.6 // indirect
	github.com/hslam/mmap v1.0.0 // indirect
	github.com/hslam/reuse v0.0.0-20230219162114-9a3f8d1f9550 // indirect
	github.com/hslam/scheduler v0.0.0-20211028175315-641598104976 // indirect
	github.com/hslam/sendfile v1.0.1 // indirect
	github.com/hslam/splice v1.0.3 // indirect
	github.com/hslam/websocket v0.1.1-0.20230517135840-2d09ff61bbdb // indirect
	github.com/hslam/writer v1.0.1-0.20230517134517-171bf4321917 // indirect
)

replace github.com/hslam/scheduler => /verif/scratch/dev/src/scheduler

replace github.com/hslam/buffer => /verif/scratch/dev/src/buffer

replace github.com/hslam/writer => /verif/scratch/dev/src/writer

replace github.com/hslam/socket => /verif/scratch/dev/src/socket

replace github.com/hslam/netpoll => /verif/scratch/dev/src/netpoll

replace github.com/hslam/atomic => /verif/scratch/dev/src/atomic

replace github.com/hslam/funcs => /verif/scratch/dev/src/funcs

replace github.com/hslam/log => /verif/scratch/dev/src/log

replace github.com/hslam/inproc => /verif/scratch/dev/src/inproc

replace github.com/hslam/rpc => /verif/scratch/dev/src/rpc

replace verif/sim => /verif/sim
