package harness

import (
	"bufio"
	"encoding/json"
	"fmt"
	"os"
	"runtime/debug"
	"strings"
	"testing"
	"testing/synctest"
	"time"

	"verif/sim/simrt"
	"verif/sim/simsync"
)

// Spec tells a worker process what to run.
type Spec struct {
	Scenario string `json:"scenario"`
	Tier     string `json:"tier"`
	Base     uint64 `json:"base"`  // VERIF_SEED
	Start    uint64 `json:"start"` // first run index
	Count    uint64 `json:"count"`
	Out      string `json:"out"`
	Replay   string `json:"replay,omitempty"` // replay file: run exactly this
	Recheck  int    `json:"recheck,omitempty"` // re-execute every Nth run and compare hashes
	KeepChoices bool `json:"keep_choices,omitempty"`
	DeadlineUnix int64 `json:"deadline,omitempty"`
}

// Replay is the replay file format.
type Replay struct {
	Property  string   `json:"property"`
	Scenario  string   `json:"scenario"`
	Seed      uint64   `json:"seed"`
	Index     uint64   `json:"index"`
	Tier      string   `json:"tier"`
	Signature string   `json:"signature"`
	Violation *Violation `json:"violation,omitempty"`
	Plan      *Plan    `json:"plan"`
	Choices   []uint32 `json:"choices"`
	Hash      string   `json:"trace_hash"`
	Minimised bool     `json:"minimised"`
	Note      string   `json:"note,omitempty"`
}

// Result of one run.
type Result struct {
	Index      uint64            `json:"index"`
	Seed       uint64            `json:"seed"`
	Hash       string            `json:"hash"`
	Steps      int               `json:"steps"`
	Switches   int               `json:"switches"`
	Draws      int               `json:"draws"`
	SimUS      int64             `json:"sim_us"`
	WallUS     int64             `json:"wall_us"`
	Budget     bool              `json:"budget,omitempty"`
	Hung       bool              `json:"hung,omitempty"`
	HungReport string            `json:"hung_report,omitempty"`
	Dirty      int               `json:"dirty,omitempty"`
	Panics     []simrt.PanicInfo `json:"panics,omitempty"`
	Violations []Violation       `json:"violations,omitempty"`
	Probes     map[string]int    `json:"probes,omitempty"`
	Faults     map[string]int    `json:"faults,omitempty"`
	Infra      string            `json:"infra,omitempty"`
	Goroutines int               `json:"goroutines"`
	Calls      int               `json:"calls"`
	Notes      []string          `json:"notes,omitempty"`
	Plan       *Plan             `json:"plan,omitempty"`
	Choices    []uint32          `json:"choices,omitempty"`
	Mismatch   bool              `json:"hash_mismatch,omitempty"`
	Interleaved bool             `json:"interleaved,omitempty"`
	Points     []string          `json:"points,omitempty"`
	Spawns     map[string]int    `json:"spawns,omitempty"`
}

var traceN int

func runPlan(t *testing.T, sc *Scenario, plan *Plan, ch *simrt.Choices) (res Result) {
	var w *World
	var run *simrt.Run
	start := time.Now()
	func() {
		defer func() {
			if r := recover(); r != nil {
				msg := fmt.Sprint(r)
				if strings.Contains(msg, "deadlock") && strings.Contains(msg, "bubble") {
					// goroutines blocked outside simrt when the run ended
					return
				}
				res.Infra = msg + "\n" + string(debug.Stack())
			}
		}()
		synctest.Test(t, func(t *testing.T) {
			simsync.ResetPools()
			simrt.ResetKeys()
			w = NewWorld(plan)
			opt := simrt.Options{
				Choices: ch, MaxSteps: plan.Sim.MaxSteps, MaxSim: time.Duration(plan.Sim.MaxSimSec) * time.Second,
				StayPermille: plan.Sim.Stay, PoolMissPermille: plan.Sim.PoolMiss, Strategy: plan.Sim.Strategy,
				PCTDepth: plan.Sim.PCTDepth, StarveSite: plan.Sim.Starve, EntryMask: plan.Sim.EntryMask,
			}
			if os.Getenv("VERIF_TRACE") != "" {
				opt.TraceCap = 1 << 22
			}
			run = simrt.Execute(opt, func() { sc.Main(w); w.mainReturned = true })
		})
	}()
	res.WallUS = time.Since(start).Microseconds()
	if run == nil || w == nil {
		if res.Infra == "" {
			res.Infra = "run did not start"
		}
		return
	}
	if tf := os.Getenv("VERIF_TRACE"); tf != "" {
		traceN++
		os.WriteFile(fmt.Sprintf("%s.%d", tf, traceN), []byte(strings.Join(run.Trace, "\n")), 0o644)
	}
	res.Hash = fmt.Sprintf("%016x", run.Hash)
	res.Steps, res.Switches, res.Draws = run.Steps, run.Switches, ch.Draws
	res.Budget, res.Hung, res.HungReport = run.BudgetExhausted, run.Hung, run.HungReport
	res.Panics = run.Panics
	res.Dirty = run.LeftBehind()
	res.SimUS = w.SimEnd.Microseconds()
	res.Interleaved = run.Switches > 2
	res.Goroutines = run.Spawned()
	res.Calls = len(w.Calls)
	res.Notes = w.Notes
	// A run in which a library goroutine panicked is a crashed process: only
	// the crash oracle (C08) judges it; a run that hit the step budget is
	// neither a pass nor a violation.
	if w.Wedged != "" && len(run.Panics) == 0 {
		// closing things down never finished: the scenario's oracles would only see consequences
		w.Violate(sc.Property+".wedged", "teardown-wedged", "five simulated minutes after the harness began to close connections, pools, clients and servers its main goroutine was still inside a library call:\n"+clipStack(w.Wedged))
	} else if !res.Budget && (len(run.Panics) == 0 || sc.JudgesPanics) {
		sc.Check(w, run)
	} else if !res.Budget {
		// the process would have crashed: the scenario's own oracles are not evaluated (their
		// findings would be consequences of the crash), the crash itself is the violation
		reportPanics(w, run, sc.Property+".crash", "library-panic:")
	}
	if os.Getenv("VERIF_DEBUG") != "" {
		for _, c := range w.Calls {
			fmt.Fprintf(os.Stderr, "CALL %s returned=%v signals=%d invoke=%d return=%d errEnd=%q replyOK=%v %s\n", descCall(c), c.Returned, c.Signals, c.Invoke, c.Return, c.ErrAtEnd, c.ReplyOK, c.ReplyWhy)
		}
		for _, e := range w.Execs {
			fmt.Fprintf(os.Stderr, "EXEC %+v\n", *e)
		}
		if os.Getenv("VERIF_DEBUG") == "4" {
			for _, p := range w.Net.Pipes {
				for dir := 0; dir < 2; dir++ {
					for _, f := range DecodeStream(p.Dir(dir).Log, w.P.Header, dir == 0) {
						fmt.Fprintf(os.Stderr, "WIRE pipe %d dir %d off %d..%d seq %d stream %d hb %v noreq %v noresp %v method %q err %q body %d bytes bad %q\n", p.ID, dir, f.Off, f.End, f.Seq, f.Stream, f.Heartbeat, f.NoRequest, f.NoResponse, f.Method, f.Error, len(f.Body), f.Bad)
					}
				}
			}
		}
		for _, p := range w.Net.Pipes {
			fmt.Fprintf(os.Stderr, "PIPE %d addr=%s cut=%q c2s=%d bytes s2c=%d bytes closed=%v/%v\n", p.ID, p.Addr, p.CutBy, len(p.Dir(0).Log), len(p.Dir(1).Log), p.Ends[0].closed, p.Ends[1].closed)
		}
		if w.TS != nil {
			for _, e := range w.TS.events {
				fmt.Fprintf(os.Stderr, "TEVENT %+v\n", e)
			}
			for _, p := range w.Net.Pipes {
				fmt.Fprintf(os.Stderr, "PIPEOPEN %d addr=%s opened=%v cutseq=%d\n", p.ID, p.Addr, p.Opened, p.CutSeq)
			}
		}
		if w.CS != nil {
			for _, rr := range w.CS.routes {
				fmt.Fprintf(os.Stderr, "ROUTE %+v\n", *rr)
			}
			for _, r := range w.CS.results {
				fmt.Fprintf(os.Stderr, "RESULT caller=%d %s start=%v end=%v err=%q returned=%v\n", r.Caller, r.Form, r.StartT, r.EndT, r.Err, r.Returned)
			}
		}
		fmt.Fprintf(os.Stderr, "LIVE at end: %v\nNOTES %v\nPROBES %v\n", w.LiveAtEnd, w.Notes, w.Probes)
		for _, p := range run.Panics {
			fmt.Fprintf(os.Stderr, "PANIC %s %s: %s\n%s\n", p.G, p.Site, p.Value, p.Stack)
		}
		if run.Hung {
			fmt.Fprintln(os.Stderr, run.HungReport)
		}
	}
	res.Violations = w.Viol
	res.Probes = w.Probes
	res.Faults = w.Net.Faults
	res.Points = w.Points
	res.Spawns = run.Sites
	return
}

func TestWorker(t *testing.T) {
	path := os.Getenv("VERIF_SPEC")
	if path == "" {
		t.Skip("no VERIF_SPEC")
	}
	b, err := os.ReadFile(path)
	if err != nil {
		t.Fatal(err)
	}
	var spec Spec
	if err := json.Unmarshal(b, &spec); err != nil {
		t.Fatal(err)
	}
	out, err := os.OpenFile(spec.Out, os.O_CREATE|os.O_WRONLY|os.O_APPEND, 0o644)
	if err != nil {
		t.Fatal(err)
	}
	defer out.Close()
	bw := bufio.NewWriter(out)
	defer bw.Flush()
	emit := func(r *Result) {
		j, _ := json.Marshal(r)
		bw.Write(j)
		bw.WriteByte('\n')
		bw.Flush()
	}
	if spec.Replay != "" {
		rb, err := os.ReadFile(spec.Replay)
		if err != nil {
			t.Fatal(err)
		}
		var rp Replay
		if err := json.Unmarshal(rb, &rp); err != nil {
			t.Fatal(err)
		}
		sc := Scenarios[rp.Scenario]
		if sc == nil {
			t.Fatalf("unknown scenario %q", rp.Scenario)
		}
		var ch *simrt.Choices
		if rp.Choices != nil {
			ch = simrt.NewReplayChoices(rp.Choices)
		} else {
			ch = simrt.NewChoices(simrt.Mix(rp.Seed, 1), true)
		}
		res := runPlan(t, sc, rp.Plan, ch)
		res.Index, res.Seed = rp.Index, rp.Seed
		res.Choices = ch.Recorded()
		res.Plan = rp.Plan
		emit(&res)
		return
	}
	sc := Scenarios[spec.Scenario]
	if sc == nil {
		t.Fatalf("unknown scenario %q", spec.Scenario)
	}
	for i := spec.Start; i < spec.Start+spec.Count; i++ {
		if spec.DeadlineUnix > 0 && time.Now().Unix() > spec.DeadlineUnix {
			break
		}
		seed := simrt.Mix(spec.Base, i)
		plan := sc.Gen(simrt.NewRand(seed), spec.Tier, i)
		ch := simrt.NewChoices(simrt.Mix(seed, 1), true)
		res := runPlan(t, sc, plan, ch)
		res.Index, res.Seed = i, seed
		if len(res.Violations) > 0 || len(res.Panics) > 0 || res.Hung || spec.KeepChoices {
			res.Plan = plan
			res.Choices = ch.Recorded()
		}
		if false {
			plan2 := sc.Gen(simrt.NewRand(seed), spec.Tier, i)
			ch2 := simrt.NewChoices(simrt.Mix(seed, 1), false)
			res2 := runPlan(t, sc, plan2, ch2)
			if res2.Hash != res.Hash || res2.Steps != res.Steps {
				res.Mismatch = true
			}
		}
		emit(&res)
		// the goroutines of the finished run stay parked: one run per process
		bw.Flush()
		out.Close()
		os.Exit(0)
	}
}
