package harness

import (
	"encoding/binary"
	"encoding/json"
	"errors"
	"hash/fnv"
)

// Msg is the argument and reply type of every unary handler. It implements
// rpc.Code and rpc.GoGoProtobuf (hand-written, zero-copy decode: Pad aliases
// the input bytes, as hslam/code and gogo byte fields do) and is also a plain
// JSON struct.
type Msg struct {
	ID     uint64 `json:"i"`
	Flags  uint32 `json:"f"`
	Server uint32 `json:"s"`
	N      uint32 `json:"n"` // requested reply payload length
	Arg    uint32 `json:"a"` // flag argument (sleep µs, error text length, ...)
	Pad    []byte `json:"p"`
}

// Behaviour flags of a request.
const (
	FlFail     = 1 << iota // handler returns an error whose text is ErrText(ID, Arg)
	FlSlow                 // handler sleeps Arg microseconds (simulated) before answering
	FlRetain               // handler keeps req.Pad
	FlNoAnswer             // handler blocks until the world shuts down
	FlBadReply             // reply cannot be encoded (handler returns a reply whose Marshal fails)
	FlYield                // handler passes several scheduling points
	FlEmpty                // handler returns the zero message (0 bytes under the pb and bytes codecs, like an all-default protobuf message)
)

func (m *Msg) isZero() bool {
	return m.ID == 0 && m.Flags == 0 && m.Server == 0 && m.N == 0 && m.Arg == 0 && len(m.Pad) == 0
}

var errShort = errors.New("msg: short buffer")

func (m *Msg) size() int {
	return 5*binary.MaxVarintLen64 + len(m.Pad)
}

func (m *Msg) put(buf []byte) int {
	n := binary.PutUvarint(buf, m.ID)
	n += binary.PutUvarint(buf[n:], uint64(m.Flags))
	n += binary.PutUvarint(buf[n:], uint64(m.Server))
	n += binary.PutUvarint(buf[n:], uint64(m.N))
	n += binary.PutUvarint(buf[n:], uint64(m.Arg))
	n += binary.PutUvarint(buf[n:], uint64(len(m.Pad)))
	n += copy(buf[n:], m.Pad)
	return n
}

func (m *Msg) get(data []byte) (int, error) {
	var vals [6]uint64
	off := 0
	for i := range vals {
		v, k := binary.Uvarint(data[off:])
		if k <= 0 {
			return 0, errShort
		}
		vals[i] = v
		off += k
	}
	if uint64(len(data)-off) < vals[5] {
		return 0, errShort
	}
	m.ID, m.Flags, m.Server, m.N, m.Arg = vals[0], uint32(vals[1]), uint32(vals[2]), uint32(vals[3]), uint32(vals[4])
	m.Pad = data[off : off+int(vals[5]) : off+int(vals[5])] // aliases data
	return off + int(vals[5]), nil
}

// BadMarshal makes every encoding of the message fail (unencodable reply/request).
const badMarshalID = ^uint64(0) - 7

var errBadMarshal = errors.New("msg: unencodable value")

// rpc.Code
func (m *Msg) Marshal(buf []byte) ([]byte, error) {
	if m.ID == badMarshalID {
		return nil, errBadMarshal
	}
	sz := m.size() + binary.MaxVarintLen64
	if cap(buf) >= sz {
		buf = buf[:sz]
	} else {
		buf = make([]byte, sz)
	}
	n := m.put(buf)
	return buf[:n], nil
}

func (m *Msg) Unmarshal(data []byte) (uint64, error) {
	n, err := m.get(data)
	return uint64(n), err
}

// PBMsg is Msg seen through the rpc.GoGoProtobuf interface (the method sets of
// rpc.Code and rpc.GoGoProtobuf clash on Marshal/Unmarshal, so it is a distinct type).
type PBMsg Msg

// Like protobuf, the all-default message encodes to zero bytes and decoding merges into the
// receiver (an empty body leaves it as the caller supplied it).
func (m *PBMsg) Size() int {
	if (*Msg)(m).isZero() {
		return 0
	}
	return (*Msg)(m).size() + binary.MaxVarintLen64
}
func (m *PBMsg) Marshal() ([]byte, error) {
	if m.ID == badMarshalID {
		return nil, errBadMarshal
	}
	if (*Msg)(m).isZero() {
		return []byte{}, nil
	}
	buf := make([]byte, m.Size())
	n := (*Msg)(m).put(buf)
	return buf[:n], nil
}
func (m *PBMsg) MarshalTo(buf []byte) (int, error) {
	if m.ID == badMarshalID {
		return 0, errBadMarshal
	}
	if (*Msg)(m).isZero() {
		return 0, nil
	}
	return (*Msg)(m).put(buf), nil
}
func (m *PBMsg) Unmarshal(data []byte) error {
	if len(data) == 0 {
		return nil
	}
	_, err := (*Msg)(m).get(data)
	return err
}

// FillPad fills b with the deterministic payload of key.
func FillPad(b []byte, key uint64) {
	x := key*0x9e3779b97f4a7c15 + 0x1234567
	i := 0
	for ; i+8 <= len(b); i += 8 {
		x ^= x << 13
		x ^= x >> 7
		x ^= x << 17
		binary.LittleEndian.PutUint64(b[i:], x)
	}
	for ; i < len(b); i++ {
		x ^= x << 13
		x ^= x >> 7
		x ^= x << 17
		b[i] = byte(x)
	}
}

// MakePad returns the payload of key with length n.
func MakePad(key uint64, n int) []byte {
	if n == 0 {
		return nil
	}
	b := make([]byte, n)
	FillPad(b, key)
	return b
}

// PadOK reports whether b is the payload of key.
func PadOK(b []byte, key uint64) bool {
	x := key*0x9e3779b97f4a7c15 + 0x1234567
	i := 0
	for ; i+8 <= len(b); i += 8 {
		x ^= x << 13
		x ^= x >> 7
		x ^= x << 17
		if binary.LittleEndian.Uint64(b[i:]) != x {
			return false
		}
	}
	for ; i < len(b); i++ {
		x ^= x << 13
		x ^= x >> 7
		x ^= x << 17
		if b[i] != byte(x) {
			return false
		}
	}
	return true
}

// Digest hashes b.
func Digest(b []byte) uint64 {
	h := fnv.New64a()
	h.Write(b)
	return h.Sum64()
}

// ReqKey / RepKey derive the payload keys of a call id.
func ReqKey(id uint64) uint64 { return id*2 + 1 }
func RepKey(id uint64) uint64 { return id*2 + 2 }

// ErrText is the error text a failing handler returns for call id with length n:
// valid UTF-8 including multi-byte runes, unique per id.
func ErrText(id uint64, n int) string {
	if n < 1 {
		n = 1
	}
	alphabet := []string{"a", "b", "Z", "0", " ", "é", "ß", "世", "界", "𝄞", "\t", "%", "\\", "\""}
	out := make([]byte, 0, n+8)
	pre := "E" + uitoa(id) + ":"
	out = append(out, pre...)
	x := id*0x2545F4914F6CDD1D + 99
	for len(out) < n {
		x ^= x << 13
		x ^= x >> 7
		x ^= x << 17
		out = append(out, alphabet[x%uint64(len(alphabet))]...)
	}
	return string(out)
}

func uitoa(v uint64) string {
	if v == 0 {
		return "0"
	}
	var b [20]byte
	i := len(b)
	for v > 0 {
		i--
		b[i] = byte('0' + v%10)
		v /= 10
	}
	return string(b[i:])
}

func jsonMarshalMsg(m *Msg) ([]byte, error) { return json.Marshal(m) }
