package harness

import (
	"encoding/base64"
	"encoding/binary"
	"fmt"
	"strconv"
	"time"

	"github.com/hslam/rpc"

	"verif/sim/simrt"
)

// Independent encoders of the documented wire formats (shares no code with rpc).

func uv(v uint64) []byte {
	var b [binary.MaxVarintLen64]byte
	return append([]byte(nil), b[:binary.PutUvarint(b[:], v)]...)
}

func lenPrefixed(b []byte) []byte { return append(uv(uint64(len(b))), b...) }

func jsonStr(s string) string { return strconv.Quote(s) }

func encodeRequest(header string, seq uint64, upgrade []byte, method string, body []byte) []byte {
	switch header {
	case "code":
		out := uv(seq)
		out = append(out, lenPrefixed(upgrade)...)
		out = append(out, lenPrefixed([]byte(method))...)
		out = append(out, lenPrefixed(body)...)
		return out
	case "json":
		return []byte(fmt.Sprintf(`{"i":%d,"u":%s,"m":%s,"p":%s}`, seq, jsonBytes(upgrade), jsonStr(method), jsonBytes(body)))
	}
	var out []byte
	if seq != 0 {
		out = append(out, 1<<3|0)
		out = append(out, uv(seq)...)
	}
	if len(upgrade) > 0 {
		out = append(out, 2<<3|2)
		out = append(out, lenPrefixed(upgrade)...)
	}
	if len(method) > 0 {
		out = append(out, 3<<3|2)
		out = append(out, lenPrefixed([]byte(method))...)
	}
	if len(body) > 0 {
		out = append(out, 4<<3|2)
		out = append(out, lenPrefixed(body)...)
	}
	return out
}

func encodeResponse(header string, seq uint64, errText string, body []byte) []byte {
	switch header {
	case "code":
		out := uv(seq)
		out = append(out, lenPrefixed([]byte(errText))...)
		out = append(out, lenPrefixed(body)...)
		return out
	case "json":
		return []byte(fmt.Sprintf(`{"i":%d,"e":%s,"r":%s}`, seq, jsonStr(errText), jsonBytes(body)))
	}
	var out []byte
	if seq != 0 {
		out = append(out, 1<<3|0)
		out = append(out, uv(seq)...)
	}
	if len(errText) > 0 {
		out = append(out, 2<<3|2)
		out = append(out, lenPrefixed([]byte(errText))...)
	}
	if len(body) > 0 {
		out = append(out, 3<<3|2)
		out = append(out, lenPrefixed(body)...)
	}
	return out
}

func jsonBytes(b []byte) string {
	if b == nil {
		return "null"
	}
	return `"` + base64.StdEncoding.EncodeToString(b) + `"`
}

func wireFrame(payload []byte) []byte { return lenPrefixed(payload) }

// bodyOf encodes a Msg with the plan's body codec.
func (w *World) bodyOf(m *Msg) []byte {
	if w.P.Codec == "json" {
		b, _ := jsonMarshalMsg(m)
		return b
	}
	b, _ := m.Marshal(nil)
	return b
}

// Upgrade bytes the library emits.
const (
	upPing        = 0x80 | 0x40 | 0x20
	upStreamOpen  = 0x80 | 0x40 | 0x08
	upStreamMsg   = 0x40 | 0x10
	upStreamClose = 0x80 | 0x40 | 0x18
)

// PuppetOp is one step of an adversarial peer.
type PuppetOp struct {
	Kind  string `json:"k"`            // valid ping sopen smsg sclose | raw | close | sleep | probe
	Mut   string `json:"mut,omitempty"` // "", trunc, flip, upgrade, dup, unknownseq
	Pos   int    `json:"pos,omitempty"`
	Val   int    `json:"val,omitempty"`
	Size  int    `json:"sz,omitempty"`
	Flags uint32 `json:"fl,omitempty"`
	Arg   uint32 `json:"arg,omitempty"`
	Raw   []byte `json:"raw,omitempty"`
	N     int    `json:"n,omitempty"`
}

type puppetConn struct {
	end     *End
	rx      []byte
	seq     uint64
	sent    map[uint64]uint64 // seq -> call id of well-formed unary requests
	probeOK int
	probeBad []string
	closedByPeer bool
	hbSeqs   []uint64 // fresh sequence numbers used by heartbeat frames with odd flags
	sopens   int      // well-formed stream opens sent
	smsgs    int      // well-formed stream messages sent
}

// corpusFrame builds the well-formed request of the given kind.
func (w *World) corpusFrame(pc *puppetConn, op *PuppetOp, id uint64) (payload []byte, seq uint64) {
	pc.seq++
	seq = pc.seq
	h := w.P.Header
	switch op.Kind {
	case "ping":
		return encodeRequest(h, seq, []byte{upPing}, "", nil), seq
	case "sopen":
		return encodeRequest(h, seq, []byte{upStreamOpen}, w.streamMethod(0), nil), seq
	case "smsg":
		m := &Msg{ID: id, Server: 0, Pad: MakePad(id, op.Size)}
		return encodeRequest(h, 1, []byte{upStreamMsg}, "", w.bodyOf(m)), seq
	case "sclose":
		return encodeRequest(h, 1, []byte{upStreamClose}, "", nil), seq
	}
	m := &Msg{ID: id, Flags: op.Flags, Arg: op.Arg, N: 8, Pad: MakePad(ReqKey(id), op.Size)}
	w.PuppetFlags[id] = op.Flags
	return encodeRequest(h, seq, nil, w.methodName(0), w.bodyOf(m)), seq
}

func mutate(payload []byte, op *PuppetOp) []byte {
	b := append([]byte(nil), payload...)
	switch op.Mut {
	case "trunc":
		if len(b) > 0 {
			b = b[:op.Pos%len(b)]
		}
	case "flip":
		if len(b) > 0 {
			p := op.Pos % len(b)
			v := byte(op.Val)
			if v == b[p] {
				v ^= 0xff
			}
			b[p] = v
		}
	}
	return b
}

// runPuppetClient drives an adversarial client against a real server.
func (w *World) runPuppetClient(ci int, ops []PuppetOp) {
	conn, err := w.Net.Socket().Dial(addrOf(0))
	if err != nil {
		w.Notes = append(w.Notes, "puppet dial: "+err.Error())
		return
	}
	pc := &puppetConn{end: conn.(*End), sent: map[uint64]uint64{}}
	w.Puppets = append(w.Puppets, pc)
	stop := false
	simrt.Go("harness.puppet.reader", func() {
		buf := make([]byte, 65536)
		for !stop {
			n, err := pc.end.Read(buf)
			pc.rx = append(pc.rx, buf[:n]...)
			if err != nil {
				pc.closedByPeer = true
				return
			}
		}
	})
	idBase := uint64(ci+1)<<16 | 0x8000
	for i := range ops {
		op := &ops[i]
		id := idBase + uint64(i)
		switch op.Kind {
		case "sleep":
			simrt.Sleep(time.Duration(op.N) * time.Microsecond)
		case "close":
			pc.end.Close()
			w.Net.fault(FLocalClose)
		case "raw":
			pc.end.Write(wireFrame(op.Raw))
			w.Net.fault("raw-frame")
		case "probe":
			w.puppetProbe(pc, id)
		case "hb":
			// a frame with the heartbeat bit set next to arbitrary other upgrade bits, a method
			// name and possibly a body: it is a ping and must be answered once without any handler
			pc.seq++
			seq := pc.seq + 5000
			if op.Pos == 1 {
				seq = 1 // the sequence number of the stream this puppet opened first
			} else {
				pc.hbSeqs = append(pc.hbSeqs, seq)
			}
			method := ""
			switch op.N {
			case 1:
				method = w.methodName(0)
			case 2:
				method = w.streamMethod(0)
			}
			var body []byte
			if op.Size > 0 {
				body = w.bodyOf(&Msg{ID: id, N: 4, Pad: MakePad(ReqKey(id), op.Size)})
			}
			pc.end.Write(wireFrame(encodeRequest(w.P.Header, seq, []byte{byte(op.Val) | 0x20}, method, body)))
			w.Net.fault("odd-upgrade")
		default:
			payload, seq := w.corpusFrame(pc, op, id)
			switch op.Mut {
			case "":
				switch op.Kind {
				case "valid":
					pc.sent[seq] = id
				case "sopen":
					pc.sopens++
				case "smsg":
					pc.smsgs++
				}
			case "upgrade":
				w.Points = append(w.Points, fmt.Sprintf("%s/upgrade/%d/sz%d", w.P.Header, op.Val, op.Size))
				// an otherwise valid unary request with an arbitrary upgrade byte
				m := &Msg{ID: id, N: 8, Pad: MakePad(ReqKey(id), op.Size)}
				payload = encodeRequest(w.P.Header, seq, []byte{byte(op.Val)}, w.methodName(0), w.bodyOf(m))
				w.Net.fault("odd-upgrade")
			case "trunc":
				w.Points = append(w.Points, fmt.Sprintf("%s/%s/trunc/%d/sz%d", w.P.Header, op.Kind, op.Pos%max(1, len(payload)), op.Size))
				payload = mutate(payload, op)
				w.Net.fault("truncate")
			case "flip":
				w.Points = append(w.Points, fmt.Sprintf("%s/%s/flip/%d=%d/sz%d", w.P.Header, op.Kind, op.Pos%max(1, len(payload)), op.Val, op.Size))
				payload = mutate(payload, op)
				w.Net.fault("flip-byte")
			}
			pc.end.Write(wireFrame(payload))
		}
		if pc.end.closed {
			break
		}
	}
	simrt.Sleep(2*w.P.Net.MaxLatency + 50*time.Millisecond)
	stop = true
}

// puppetProbe sends a well-formed request on the puppet's connection and, if
// the server kept the connection, expects the right answer.
func (w *World) puppetProbe(pc *puppetConn, id uint64) {
	if pc.end.closed || pc.closedByPeer || pc.end.pipe.Ends[1].closed {
		return
	}
	pc.seq++
	seq := pc.seq + 1000
	m := &Msg{ID: id, N: 5, Pad: MakePad(ReqKey(id), 9)}
	pc.sent[seq] = id
	pc.end.Write(wireFrame(encodeRequest(w.P.Header, seq, nil, w.methodName(0), w.bodyOf(m))))
	simrt.Sleep(2*w.P.Net.MaxLatency + 20*time.Millisecond)
	if pc.closedByPeer || pc.end.pipe.Ends[1].closed {
		return // the server dropped the connection: allowed
	}
	for _, f := range DecodeStream(pc.rx, w.P.Header, false) {
		if f.Seq == seq {
			if f.Error == "" && BodyID(f.Body, w.P.Codec) == id {
				pc.probeOK++
			} else {
				pc.probeBad = append(pc.probeBad, fmt.Sprintf("probe seq %d: error %q, body id %d", seq, f.Error, BodyID(f.Body, w.P.Codec)))
			}
			return
		}
	}
	pc.probeBad = append(pc.probeBad, fmt.Sprintf("probe seq %d (id %d): the connection is still open but no response arrived", seq, id))
}

// ---------------------------------------------------------------------------
// puppet server: answers a real client with scripted (mutated) responses

type PuppetReply struct {
	Mut string `json:"mut,omitempty"` // "", trunc, flip, dup, unknownseq, raw, drop, errtext
	Pos int    `json:"pos,omitempty"`
	Val int    `json:"val,omitempty"`
	Raw []byte `json:"raw,omitempty"`
}

func (w *World) runPuppetServer(addr string, script []PuppetReply, closeAfter int) {
	lis, err := w.Net.Socket().Listen(addr)
	if err != nil {
		w.Notes = append(w.Notes, "puppet listen: "+err.Error())
		return
	}
	w.PuppetLis = lis.(*Listener)
	for {
		c, err := lis.Accept()
		if err != nil {
			return
		}
		end := c.(*End)
		simrt.Go("harness.puppet.server", func() {
			var rx []byte
			buf := make([]byte, 65536)
			done := 0
			k := 0
			for {
				n, err := end.Read(buf)
				rx = append(rx, buf[:n]...)
				if err != nil {
					return
				}
				frames := DecodeStream(rx, w.P.Header, true)
				for ; done < len(frames); done++ {
					f := frames[done]
					var rep PuppetReply
					if k < len(script) {
						rep = script[k]
					}
					k++
					id := BodyID(f.Body, w.P.Codec)
					body := w.bodyOf(&Msg{ID: id, Server: 0, Pad: MakePad(RepKey(id), 8)})
					if f.NoResponse {
						body = nil
					}
					payload := encodeResponse(w.P.Header, f.Seq, "", body)
					switch rep.Mut {
					case "drop":
						continue
					case "trunc":
						payload = mutate(payload, &PuppetOp{Mut: "trunc", Pos: rep.Pos})
						w.Net.fault("truncate")
					case "flip":
						payload = mutate(payload, &PuppetOp{Mut: "flip", Pos: rep.Pos, Val: rep.Val})
						w.Net.fault("flip-byte")
					case "unknownseq":
						end.Write(wireFrame(encodeResponse(w.P.Header, f.Seq+1000+uint64(rep.Val), "", body)))
						w.Net.fault("unknown-seq")
					case "dup":
						end.Write(wireFrame(payload))
						w.Net.fault("dup-response")
					case "raw":
						payload = rep.Raw
						w.Net.fault("raw-frame")
					case "errtext":
						payload = encodeResponse(w.P.Header, f.Seq, ErrText(id, 1+rep.Val), nil)
					}
					end.Write(wireFrame(payload))
					if closeAfter > 0 && k >= closeAfter {
						end.Close()
						w.Net.fault(FLocalClose)
						return
					}
				}
			}
		})
	}
}

var _ = rpc.ErrShutdown
