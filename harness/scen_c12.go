package harness

import (
	"fmt"
	"sort"

	"verif/sim/simrt"
)

// ------------------------------------------------------------------ C12
//
// One generated workload is executed twice inside the same simulated run:
// first under the reference configuration (JSON body codec, default header,
// options by constructor, plain non-poll multiplexing server, 64 KB buffers,
// unfragmented network), then under a PRNG-chosen configuration. The
// transcripts {call id -> outcome} and the executed-id multisets must be equal
// to each other and to the transcript the plan itself predicts.

func refPlan(p *Plan) *Plan {
	q := *p
	q.Codec, q.Header, q.ByName, q.Plain, q.Mixed, q.TLS = "json", "", false, false, false, false
	q.Net = NetConfig{}
	q.Servers = make([]ServerCfg, len(p.Servers))
	q.Conns = make([]ConnCfg, len(p.Conns))
	for i := range q.Conns {
		q.Conns[i] = ConnCfg{Server: p.Conns[i].Server}
	}
	q.Faults = nil
	return &q
}

// RunConfigWorld runs the reference world, then the world of the plan.
func (w *World) RunConfigWorld() {
	ref := NewWorld(refPlan(w.P))
	ref.RunConnWorld()
	w.Ref = ref
	// the variant world gets its own network; options by name resolve to it from here on
	currentNet = w.Net
	w.RunConnWorld()
}

func genC12(r *simrt.Rand, tier string, idx uint64) *Plan {
	p := genBase(r, "c12", false)
	// configuration knobs beyond genBase: NoCopy on either side (handlers here never retain)
	for i := range p.Servers {
		p.Servers[i].NoCopy = r.Chance(1, 4)
	}
	for i := range p.Conns {
		p.Conns[i].NoCopy = r.Chance(1, 4)
		p.Conns[i].DirectSet = genDirectSet(r)
	}
	// (unary handlers here look at their arguments only while they run, which NoCopy allows
	// for every codec)
	// Options may carry a TLS configuration: it has to reach the socket constructor on both ends
	// whether the socket is given by name or by constructor
	p.TLS = !p.Plain && r.Chance(1, 3)
	big := bigBudget(p)
	nclients := 1 + r.Intn(4)
	for c := 0; c < nclients; c++ {
		cp := ClientPlan{Conn: r.Intn(len(p.Conns))}
		n := 2 + r.Intn(10)
		for i := 0; i < n; i++ {
			op := genCallOp(r, &big)
			if op.Kind == "ctx" {
				op.Timeout = 0
			}
			switch r.Intn(8) {
			case 0, 1:
				op.Flags |= FlFail
				op.Arg = uint32(1 + r.Intn(300))
				op.Flags &^= FlSlow
			case 2:
				op.Bad = "method"
			case 3:
				cp.Ops = append(cp.Ops, Op{Kind: "ping"})
			}
			cp.Ops = append(cp.Ops, op)
		}
		cp.Ops = append(cp.Ops, Op{Kind: "wait"})
		p.Clients = append(p.Clients, cp)
	}
	// streams beside the calls: several messages written in a row, so that a backlog builds up in
	// front of the handler. (NoCopy is specified for codecs that do not alias their input: with the
	// code/pb body codecs a decoded stream message aliases a buffer NoCopy has already recycled, so
	// streams go with NoCopy only under the json body codec.)
	nocopy := false
	for _, sv := range p.Servers {
		nocopy = nocopy || sv.NoCopy
	}
	for _, c := range p.Conns {
		nocopy = nocopy || c.NoCopy
	}
	if p.Codec != "bytes" && (p.Codec == "json" || !nocopy) && r.Chance(1, 2) {
		for k := 0; k < 1+r.Intn(2); k++ {
			genStreamClient(r, p, r.Intn(len(p.Conns)), &big)
		}
	}
	return p
}

// outcome classifies the result of a call in a configuration-independent way.
func outcome(c *CallRec) string {
	switch {
	case !c.Returned:
		return "never-returned"
	case c.Form == "ping":
		if c.Err == "" {
			return "ok"
		}
		return "error:" + c.Err
	case c.Err == "" && c.ReplyOK:
		return "ok"
	case c.Err == "":
		return "wrong-reply:" + c.ReplyWhy
	}
	return "error:" + c.Err
}

func expectedOutcome(c *CallRec) string {
	switch {
	case c.Form == "ping":
		return "ok"
	case c.Bad == "method":
		return "error:can't find service " + c.Method
	case c.Flags&FlFail != 0:
		return "error:" + ErrText(c.ID, int(c.Arg))
	}
	return "ok"
}

func execIDs(w *World) []uint64 {
	var ids []uint64
	for _, e := range w.Execs {
		if !e.Stream {
			ids = append(ids, e.ID)
		}
	}
	sort.Slice(ids, func(i, j int) bool { return ids[i] < ids[j] })
	return ids
}

func cfgDesc(p *Plan) string {
	return fmt.Sprintf("codec=%s header=%q byname=%v mixed=%v plain=%v servers=%+v conns=%+v net={frag:%d onechunk:%v lat:%v poll:%d/%d}", p.Codec, p.Header, p.ByName, p.Mixed, p.Plain, p.Servers, p.Conns, p.Net.FragPermille, p.Net.OneChunkReads, p.Net.MaxLatency, p.Net.PollMode, p.Net.PollWorkers)
}

func checkC12(w *World, run *simrt.Run) {
	ref := w.Ref
	if ref == nil {
		return
	}
	if len(ref.Calls) != len(w.Calls) {
		w.Violate("C12.transcript", "different-number-of-calls", fmt.Sprintf("reference made %d calls, %s made %d", len(ref.Calls), cfgDesc(w.P), len(w.Calls)))
		return
	}
	for _, c := range w.Calls {
		rc := ref.byID[c.ID]
		if rc == nil {
			w.Violate("C12.transcript", "call-missing-in-reference", descCall(c))
			continue
		}
		want := expectedOutcome(c)
		got, rgot := outcome(c), outcome(rc)
		if rgot != want {
			w.Violate("C12.reference", "reference-configuration-deviates-from-plan:"+failKind(c), fmt.Sprintf("%s: expected %q, reference configuration produced %q", descCall(rc), clip(want), clip(rgot)))
		}
		if got != rgot {
			kind := "outcome-differs"
			if got == "never-returned" {
				kind = "call-stuck"
			}
			w.Violate("C12.transcript", kind+":"+cfgClass(w.P), fmt.Sprintf("%s: reference outcome %q, outcome under %s: %q", descCall(c), clip(rgot), cfgDesc(w.P), clip(got)))
		}
	}
	a, b := execIDs(ref), execIDs(w)
	same := len(a) == len(b)
	for i := 0; same && i < len(a); i++ {
		same = a[i] == b[i]
	}
	if !same {
		w.Violate("C12.executions", "executed-requests-differ:"+cfgClass(w.P), fmt.Sprintf("reference executed %d handlers, %s executed %d (ids %v vs %v)", len(a), cfgDesc(w.P), len(b), a, b))
	}
	// streams: what each end received is the same in both configurations and is what was written
	for k, sr := range w.Streams {
		if k >= len(ref.Streams) {
			break
		}
		rr := ref.Streams[k]
		desc := func(x *StreamRec) string {
			return fmt.Sprintf("opened=%v handler got %v, client got %v, foreign=%d damaged=%d", x.Opened, x.SGot, x.CGot, x.Foreign, x.BadPayload)
		}
		sameIDs := func(a, b []uint64) bool {
			if len(a) != len(b) {
				return false
			}
			for i := range a {
				if a[i] != b[i] {
					return false
				}
			}
			return true
		}
		// (the handler may not have read the client's last messages yet when the run ends, and the
		// client reads exactly as many messages as the plan says: prefixes on those sides)
		if !rr.Opened || !isPrefix(rr.SGot, rr.CSent) || !isPrefix(rr.CGot, rr.SSent) || rr.Foreign > 0 || rr.BadPayload > 0 {
			w.Violate("C12.reference", "reference-configuration-deviates-from-plan:stream", fmt.Sprintf("stream %d under the reference configuration: %s (client wrote %v, handler wrote %v)", k, desc(rr), rr.CSent, rr.SSent))
		}
		if sr.Opened != rr.Opened || !(isPrefix(sr.SGot, rr.SGot) || isPrefix(rr.SGot, sr.SGot)) || !isPrefix(sr.SGot, sr.CSent) || !sameIDs(sr.CGot, rr.CGot) || sr.Foreign != rr.Foreign || sr.BadPayload != rr.BadPayload {
			w.Violate("C12.transcript", "stream-outcome-differs:"+cfgClass(w.P), fmt.Sprintf("stream %d: reference: %s; under %s: %s", k, desc(rr), cfgDesc(w.P), desc(sr)))
		}
		w.Probe("stream-pair-compared")
	}
	if w.P.TLS {
		if w.Net.TLSMissing > 0 || w.Net.TLSCalls == 0 {
			w.Violate("C12.tls", "tls-configuration-not-passed-to-socket:"+map[bool]string{true: "by-name", false: "by-constructor"}[w.P.ByName], fmt.Sprintf("Options.TLSConfig was set on both ends; of %d socket constructor calls %d received no or another configuration (%s)", w.Net.TLSCalls, w.Net.TLSMissing, cfgDesc(w.P)))
		} else {
			w.Probe("tls-configuration-reached-socket")
		}
	}
	w.Probe("configuration-pair-compared")
	w.Probe("cfg:" + w.P.Codec + "/" + w.P.Header)
}

// cfgClass names the coarse configuration class for signatures.
func cfgClass(p *Plan) string {
	s := p.Codec + "/" + p.Header
	if len(p.Servers) > 0 {
		sv := p.Servers[0]
		if sv.Poll {
			s += "/poll"
		}
		if sv.Pipelining {
			s += "/pipe"
		}
		if sv.DirectIO {
			s += "/direct"
		}
	}
	return s
}

func init() {
	register(&Scenario{Property: "C12", Name: "c12", Gen: genC12, Main: (*World).RunConfigWorld, Check: checkC12})
}
