package harness

import (
	"time"

	"verif/sim/simrt"
)

// Scenario is one property's workload generator and oracle.
type Scenario struct {
	Property string
	Name     string
	Gen      func(r *simrt.Rand, tier string, idx uint64) *Plan
	Main     func(w *World)
	Check    func(w *World, run *simrt.Run)
	JudgesPanics bool
}

var Scenarios = map[string]*Scenario{}

func register(s *Scenario) { Scenarios[s.Name] = s }

var codecs = []string{"json", "code", "pb", "bytes"}
var headers = []string{"", "pb", "code", "json"}

func genSim(r *simrt.Rand) SimCfg {
	s := SimCfg{MaxSteps: 200000, MaxSimSec: 3600}
	switch r.Intn(10) {
	case 0:
		s.Stay = 0
	case 1, 2:
		s.Stay = 500
	case 3, 4:
		s.Stay = 800
	case 5, 6:
		s.Stay = 900
	case 7:
		s.Stay = 950
	case 8:
		s.Stay = 980
	case 9:
		s.Strategy = 1
		s.PCTDepth = 1 + r.Intn(5)
	}
	if r.Chance(1, 3) {
		s.PoolMiss = []int{50, 200, 500}[r.Intn(3)]
	}
	if r.Chance(1, 3) {
		s.EntryMask = r.Uint64() & r.Uint64() // ~25% of functions
	}
	return s
}

func genNet(r *simrt.Rand, faulty bool) NetConfig {
	n := NetConfig{}
	if r.Chance(2, 3) {
		n.FragPermille = []int{100, 400, 900}[r.Intn(3)]
	}
	n.OneChunkReads = r.Chance(1, 3)
	if r.Chance(1, 4) {
		n.MaxLatency = time.Duration([]int{50, 1000, 20000}[r.Intn(3)]) * time.Microsecond
	}
	n.PollMode = r.Intn(2)
	n.PollWorkers = 1 + r.Intn(3)
	if r.Chance(1, 5) {
		n.Window = []int{512, 4096, 65536}[r.Intn(3)] // bounded in-flight bytes per direction: writers block (back-pressure)
	}
	if faulty {
		n.SilentPipe = r.Bool()
	}
	return n
}

// buffer sizes: tiny, aligned, and non-aligned ones (the pool rounds a size up, so
// len(buffer) < cap(buffer) and a frame can fit the capacity but not the length)
var bufSizes = []int{1, 64, 100, 1000, 3000, 4096, 5000, 70000, 1 << 20}

func genBuf(r *simrt.Rand) int {
	if r.Chance(1, 5) {
		return 0 // default
	}
	return bufSizes[r.Intn(len(bufSizes))]
}

func alignedCap(n int) int {
	if n >= 64*1024 {
		return (n + 1023) / 1024 * 1024
	}
	c := 8
	for c < n {
		c <<= 1
	}
	return c
}

func genServer(r *simrt.Rand) ServerCfg {
	s := ServerCfg{}
	s.Poll = r.Chance(1, 3)
	s.Pipelining = r.Chance(1, 3)
	s.DirectIO = r.Chance(1, 4)
	s.BufferSize = genBuf(r)
	s.Shared = r.Chance(1, 4)
	return s
}

func genConn(r *simrt.Rand, nservers int) ConnCfg {
	c := ConnCfg{Server: r.Intn(nservers)}
	c.Pipelining = r.Chance(1, 4)
	c.DirectIO = r.Chance(1, 4)
	c.BufferSize = genBuf(r)
	// Conn.SetBufferSize after Dial blocks on the reader's lock until the next
	// message arrives (the reader holds it while blocked in Read); it is not used.
	return c
}

var sizeClasses = []int{0, 1, 2, 7, 100, 127, 128, 129, 1000, 4095, 4096, 4097, 16383, 16384, 16385}

// nearRanges are payload ranges around the configured buffer sizes of the plan being generated
// (frames that just fit / just exceed the length or the pool-aligned capacity of a buffer).
var nearRanges [][2]int

func setNearRanges(p *Plan) {
	nearRanges = nil
	add := func(b int) {
		if b >= 100 && b <= 70000 {
			nearRanges = append(nearRanges, [2]int{b - 90, alignedCap(b) + 24})
		}
	}
	for _, s := range p.Servers {
		add(s.BufferSize)
	}
	for _, c := range p.Conns {
		add(c.BufferSize)
	}
}

func genSize(r *simrt.Rand, big *int) int {
	if len(nearRanges) > 0 && r.Chance(1, 4) {
		nr := nearRanges[r.Intn(len(nearRanges))]
		if nr[1] < 4200 || *big > 0 {
			if nr[1] >= 4200 {
				*big--
			}
			return r.Range(nr[0], nr[1])
		}
	}
	if *big < 0 { // tiny buffers somewhere: every byte costs a scheduling step
		return []int{0, 1, 2, 7, 100, 127, 128, 129, 300}[r.Intn(9)]
	}
	switch r.Intn(12) {
	case 0:
		if *big > 0 {
			*big--
			return []int{65535, 65536, 65537, 70000, 131072, 300000}[r.Intn(6)]
		}
		return r.Intn(3000)
	case 1, 2, 3:
		return sizeClasses[r.Intn(len(sizeClasses))]
	case 4, 5:
		return r.Intn(3000)
	case 6:
		// payloads whose *encoded* body (payload + ~10..14 bytes of fields) straddles 127/128
		return 100 + r.Intn(32)
	case 7:
		if *big > 0 {
			*big--
			return 16355 + r.Intn(32) // ... and 16383/16384
		}
		return 100 + r.Intn(32)
	}
	return r.Intn(64)
}

// genBase draws the configuration shared by the connection-level scenarios.
func genBase(r *simrt.Rand, name string, faulty bool) *Plan {
	p := &Plan{Scenario: name, Sim: genSim(r), Net: genNet(r, faulty)}
	p.Codec = codecs[r.Intn(len(codecs))]
	p.Header = headers[r.Intn(len(headers))]
	p.ByName = r.Chance(1, 3)
	p.Mixed = p.ByName && r.Chance(1, 2)
	if p.Header == "" && p.Codec != "bytes" && r.Chance(1, 4) {
		p.Plain = true // the three-argument Listen/Dial forms (registered network and codec names)
	}
	ns := 1
	if r.Chance(1, 4) {
		ns = 2
	}
	for i := 0; i < ns; i++ {
		p.Servers = append(p.Servers, genServer(r))
	}
	nc := 1 + r.Intn(3)
	if r.Chance(1, 2) {
		nc = 1
	}
	for i := 0; i < nc; i++ {
		p.Conns = append(p.Conns, genConn(r, ns))
	}
	setNearRanges(p)
	return p
}

// bigBudget returns how many large payloads a plan may contain (-1: only small ones).
func bigBudget(p *Plan) int {
	for _, s := range p.Servers {
		if s.BufferSize > 0 && s.BufferSize < 1000 {
			return -1
		}
	}
	for _, c := range p.Conns {
		if c.BufferSize > 0 && c.BufferSize < 1000 {
			return -1
		}
	}
	return 2
}

func genCallOp(r *simrt.Rand, big *int) Op {
	op := Op{Kind: []string{"call", "call", "go", "go", "rt", "ctx"}[r.Intn(6)], Shape: r.Intn(4)}
	op.Size = genSize(r, big)
	op.Rep = genSize(r, big)
	op.CtxBuf = -1
	if r.Chance(1, 3) {
		op.Flags |= FlSlow
		op.Arg = uint32(1 + r.Intn(500))
	}
	if r.Chance(1, 4) {
		op.Flags |= FlYield
	}
	if r.Chance(1, 8) {
		op.Flags |= FlEmpty // zero-length reply body under pb / bytes
		op.Rep = 0
	}
	if op.Kind == "go" && r.Chance(1, 4) {
		op.NilDone = true
	}
	return op
}

// ------------------------------------------------------------------ C01

func genC01(r *simrt.Rand, tier string, idx uint64) *Plan {
	faulty := idx%4 == 3
	p := genBase(r, "c01", faulty)
	big := bigBudget(p)
	nclients := 1 + r.Intn(6)
	budget := 6 + r.Intn(40)
	for c := 0; c < nclients; c++ {
		cp := ClientPlan{Conn: r.Intn(len(p.Conns))}
		n := 1 + r.Intn(1+budget/nclients)
		for i := 0; i < n; i++ {
			switch r.Intn(14) {
			case 0:
				cp.Ops = append(cp.Ops, Op{Kind: "ping"})
			case 1:
				cp.Ops = append(cp.Ops, Op{Kind: "wait"})
			case 2:
				cp.Ops = append(cp.Ops, Op{Kind: "sleep", N: r.Intn(300)})
			case 3:
				op := genCallOp(r, &big)
				if p.Codec != "bytes" && r.Chance(1, 2) {
					op.Bad = "encode" // fails on the client before anything is sent; neighbours must be unaffected
				} else if p.Codec != "bytes" && r.Chance(1, 2) {
					op.Bad = "reply" // executed and answered, but the reply cannot be decoded: not a success
					op.Flags &^= FlEmpty
					op.CtxBuf = -1
				}
				cp.Ops = append(cp.Ops, op)
			case 4:
				// a call abandoned by its context (deadline well before the handler answers), then a call
				// that is still outstanding when the late response arrives
				ab := genCallOp(r, &big)
				d := 300 + r.Intn(1500)
				ab.Kind, ab.Flags, ab.Arg, ab.Timeout, ab.Bad, ab.CtxBuf = "ctx", FlSlow, uint32(d), d/3, "", -1
				next := genCallOp(r, &big)
				next.Kind, next.Bad, next.NilDone = "go", "", false
				next.Flags, next.Arg = FlSlow, uint32(2*d+r.Intn(1000))
				cp.Ops = append(cp.Ops, ab, next)
			default:
				cp.Ops = append(cp.Ops, genCallOp(r, &big))
			}
		}
		p.Clients = append(p.Clients, cp)
	}
	if faulty {
		total := 0
		for _, c := range p.Clients {
			total += len(c.Ops)
		}
		f := Fault{Conn: r.Intn(len(p.Conns)), AtOp: 1 + r.Intn(total), RST: r.Bool()}
		f.Kind = []string{"cut", "closeconn", "killserver"}[r.Intn(3)]
		f.Server = p.Conns[f.Conn].Server
		p.Faults = append(p.Faults, f)
	}
	return p
}

func checkC01(w *World, run *simrt.Run) {
	for _, c := range w.Calls {
		if !c.Returned || c.Err != "" || c.Form == "ping" {
			continue
		}
		if !c.ReplyOK {
			w.Violate("C01.reply-mismatch", "reply-mismatch:"+c.Form, descCall(c)+": "+c.ReplyWhy)
		}
	}
	// evaluated again at end of run: retained replies must still be intact
	for _, rb := range w.retainedBufs {
		if rb.what == "reply-pad" && Digest(rb.b) != rb.digest {
			w.Violate("C01.reply-mutated-later", "reply-mutated", "reply payload of call changed after completion")
		}
	}
}

func init() {
	register(&Scenario{Property: "C01", Name: "c01", Gen: genC01, Main: (*World).RunConnWorld, Check: checkC01})
}
