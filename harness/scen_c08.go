package harness

import (
	"fmt"
	"strings"

	"verif/sim/simrt"
)

// ------------------------------------------------------------------ C08
//
// run index mod 4:
//   0  burst-then-EOF: 1..64 well-formed requests followed immediately by a disconnect (schedule search)
//   1  adversarial server against a real client connection
//   2,3 enumeration of frame mutations against a real server: every truncation, single-byte
//       corruption (all 255 other values in thorough, 8 in quick) and every upgrade byte, for
//       every corpus frame kind and header encoder; 6 points per run, each followed by a
//       well-formed probe on the same connection, next to a well-formed client on another one

var c08Kinds = []string{"valid", "ping", "sopen", "smsg", "sclose"}
var c08QuickVals = []int{0x00, 0x01, 0x7f, 0x80, 0xff, 0x08, 0x10, 0x55}

// byte positions that are enumerated (position mod frame length): 96 covers the short corpus
// frames completely; the thorough tier also covers the frames with 140-byte fields
var c08Positions uint64 = 96

func c08Point(e uint64, thorough bool) (header string, op PuppetOp) {
	nv := uint64(len(c08QuickVals))
	c08Positions = 96
	if thorough {
		nv = 255
		c08Positions = 224
	}
	per := uint64(len(c08Kinds))*c08Positions + uint64(len(c08Kinds))*c08Positions*nv + 256
	header = headers[(e/per)%uint64(len(headers))]
	x := e % per
	switch {
	case x < uint64(len(c08Kinds))*c08Positions:
		op = PuppetOp{Kind: c08Kinds[x/c08Positions], Mut: "trunc", Pos: int(x % c08Positions)}
	case x < uint64(len(c08Kinds))*c08Positions*(1+nv):
		y := x - uint64(len(c08Kinds))*c08Positions
		v := int(y % nv)
		if thorough {
			v++ // 1..255: xor-free absolute value; equal-to-original values are complemented by mutate
		} else {
			v = c08QuickVals[v]
		}
		y /= nv
		op = PuppetOp{Kind: c08Kinds[y/c08Positions], Mut: "flip", Pos: int(y % c08Positions), Val: v}
	default:
		op = PuppetOp{Kind: "valid", Mut: "upgrade", Val: int(x - uint64(len(c08Kinds))*c08Positions*(1+nv))}
	}
	op.Size = []int{3, 140}[(e/per/uint64(len(headers)))%2] // small and >127-byte fields
	return
}

func genC08(r *simrt.Rand, tier string, idx uint64) *Plan {
	p := genBase(r, "c08", true)
	p.Servers = p.Servers[:1]
	p.Conns = []ConnCfg{genConn(r, 1)}
	// the raw-bytes body codec is kept in the enumerated modes (no stream service then: its handlers
	// take typed messages)
	rawBytes := p.Codec == "bytes" && idx%4 >= 2
	if p.Codec == "bytes" && !rawBytes {
		p.Codec = "code"
	}
	p.Params = map[string]int{"mode": int(idx % 4)}
	small := -1
	switch idx % 4 {
	case 0:
		// burst then EOF (the stream handler reads into a buffer of its own that the peer's messages may exceed)
		p.Streams = []StreamPlan{{Conn: 0, Echo: true, RBuf: []int{0, 3, 17}[r.Intn(3)]}}
		n := 1 + r.Intn(64)
		var ops []PuppetOp
		if r.Chance(1, 3) {
			ops = append(ops, PuppetOp{Kind: "sopen"})
		}
		for i := 0; i < n; i++ {
			op := PuppetOp{Kind: "valid", Size: r.Intn(40)}
			switch r.Intn(6) {
			case 0:
				op.Flags, op.Arg = FlSlow, uint32(1+r.Intn(200))
			case 1:
				op.Flags = FlYield
			case 2:
				op.Kind = "ping"
			case 3:
				if len(ops) > 0 && ops[0].Kind == "sopen" {
					op.Kind = "smsg"
				}
			}
			ops = append(ops, op)
			// the disconnect can also sit at a frame boundary inside the burst
			if r.Chance(1, 40) {
				break
			}
		}
		ops = append(ops, PuppetOp{Kind: "close"})
		p.Puppets = [][]PuppetOp{ops}
		if r.Chance(1, 2) {
			p.Puppets = append(p.Puppets, append([]PuppetOp(nil), ops...))
		}
		p.Clients = []ClientPlan{{Conn: 0, Ops: mixedOps(r, 1+r.Intn(4), &small, []string{"call"})}}
	case 1:
		// adversarial server
		p.Params["puppet_server"] = 1
		p.Streams = nil
		n := 2 + r.Intn(10)
		for i := 0; i < n; i++ {
			rep := PuppetReply{}
			switch r.Intn(9) {
			case 0, 1:
				rep = PuppetReply{Mut: "trunc", Pos: r.Intn(224)}
			case 2, 3:
				rep = PuppetReply{Mut: "flip", Pos: r.Intn(224), Val: r.Intn(256)}
			case 4:
				rep = PuppetReply{Mut: "dup"}
			case 5:
				rep = PuppetReply{Mut: "unknownseq", Val: r.Intn(5)}
			case 6:
				raw := make([]byte, r.Intn(12))
				for k := range raw {
					raw[k] = byte(r.Intn(256))
				}
				rep = PuppetReply{Mut: "raw", Raw: raw}
			case 7:
				rep = PuppetReply{Mut: "errtext", Val: r.Intn(300)}
			}
			p.Replies = append(p.Replies, rep)
		}
		if r.Chance(1, 3) {
			p.Params["close_after"] = 1 + r.Intn(n)
		}
		for c := 0; c < 1+r.Intn(3); c++ {
			cp := ClientPlan{Conn: 0}
			for i := 0; i < 1+r.Intn(5); i++ {
				switch r.Intn(5) {
				case 0:
					cp.Ops = append(cp.Ops, Op{Kind: "ping"})
				case 1:
					cp.Ops = append(cp.Ops, Op{Kind: "go", Size: r.Intn(30), Rep: 8, CtxBuf: -1})
				default:
					// a context deadline keeps the caller from waiting forever for a response the puppet corrupted
					cp.Ops = append(cp.Ops, Op{Kind: "ctx", Size: r.Intn(30), Rep: 8, CtxBuf: -1, Timeout: 50000 + r.Intn(100000)})
				}
			}
			p.Clients = append(p.Clients, cp)
		}
	default:
		thorough := tier == "thorough"
		e := (idx/4)*2 + (idx%4 - 2)
		var ops []PuppetOp
		p.Streams = []StreamPlan{{Conn: 0, Echo: true, RBuf: []int{0, 3, 17}[e%3]}}
		if rawBytes {
			p.Streams = nil
		}
		for k := uint64(0); k < 6; k++ {
			h, op := c08Point(e*6+k, thorough)
			if k == 0 {
				p.Header = h
				p.Plain = false // the three-argument Listen/Dial forms imply the default header
			} else if h != p.Header {
				break
			}
			if op.Kind == "smsg" || op.Kind == "sclose" {
				ops = append(ops, PuppetOp{Kind: "sopen"})
			}
			ops = append(ops, op, PuppetOp{Kind: "probe"})
		}
		p.Puppets = [][]PuppetOp{ops}
		p.Clients = []ClientPlan{{Conn: 0, Ops: []Op{{Kind: "call", Size: 5, Rep: 5, CtxBuf: -1}, {Kind: "sleep", N: 30000}, {Kind: "call", Size: 6, Rep: 6, CtxBuf: -1}, {Kind: "sleep", N: 200000}, {Kind: "call", Size: 7, Rep: 7, CtxBuf: -1}}}}
		p.Faults = nil
	}
	return p
}

func checkC08(w *World, run *simrt.Run) {
	for _, pn := range run.Panics {
		top := topFrame(pn.Stack)
		val := pn.Value
		if i := strings.IndexAny(val, "[0123456789"); i > 0 && strings.Contains(val, "index out of range") {
			val = "index out of range"
		}
		if strings.Contains(val, "slice bounds out of range") {
			val = "slice bounds out of range"
		}
		w.Violate("C08.panic", fmt.Sprintf("panic:%s@%s", val, top), fmt.Sprintf("goroutine %s (%s) panicked: %s\n%s", pn.G, pn.Site, pn.Value, clipStack(pn.Stack)))
	}
	if len(run.Panics) > 0 {
		return
	}
	if run.Hung {
		w.Violate("C08.wedged", "run-wedged", "the run did not reach quiescence")
	}
	mode := w.P.Params["mode"]
	if mode != 1 {
		// well-formed traffic on the other connection is still served
		for _, c := range w.Calls {
			if !c.Returned {
				w.Violate("C08.other-connection", "well-formed-call-stuck", descCall(c))
			} else if c.Err != "" || (c.Form != "ping" && !c.ReplyOK) {
				w.Violate("C08.other-connection", "well-formed-call-failed", descCall(c)+": "+c.ReplyWhy)
			}
		}
		for _, pc := range w.Puppets {
			for _, b := range pc.probeBad {
				w.Violate("C08.same-connection", "probe-after-bad-frame-not-served", b)
			}
			w.Probes["probes-served-after-bad-frame"] += pc.probeOK
			if pc.closedByPeer {
				w.Probe("server-dropped-offending-connection")
			}
		}
	} else {
		for _, c := range w.Calls {
			if c.Returned && c.Err == "" && c.Form != "ping" && !c.ReplyOK {
				w.Probe("client-accepted-corrupted-reply") // a corrupted body that still decodes: not a crash
			}
		}
	}
}

// topFrame returns the innermost github.com/hslam/rpc frame of a panic stack
// (or the innermost hslam frame if rpc is not on the stack).
func topFrame(stack string) string {
	lines := strings.Split(stack, "\n")
	seenPanic := false
	other := ""
	for _, l := range lines {
		if strings.HasPrefix(l, "panic(") {
			seenPanic = true
			continue
		}
		if !seenPanic || strings.HasPrefix(l, "\t") || !strings.HasPrefix(l, "github.com/hslam/") {
			continue
		}
		f := l
		if j := strings.LastIndex(f, "("); j > 0 && !strings.HasSuffix(f[:j], ".") {
			f = f[:j]
		}
		f = strings.TrimPrefix(f, "github.com/hslam/")
		if strings.HasPrefix(f, "rpc.") {
			return f
		}
		if other == "" {
			other = f
		}
	}
	if other != "" {
		return other
	}
	return "?"
}

func clipStack(s string) string {
	lines := strings.Split(s, "\n")
	if len(lines) > 40 {
		lines = lines[:40]
	}
	return strings.Join(lines, "\n")
}

func init() {
	register(&Scenario{Property: "C08", Name: "c08", Gen: genC08, Main: (*World).RunConnWorld, Check: checkC08, JudgesPanics: true})
}

// ------------------------------------------------------------------ C08 in the other worlds
//
// A peer that goes away must not crash the process through the Transport or the
// load-balancing Client either: the Transport and Client workloads (server kill/restart,
// connection drops, targets refusing and recovering under every scheduling policy) are run
// with the crash oracle only.

func checkPanicsOnly(w *World, run *simrt.Run) { reportPanics(w, run, "C08.panic", "panic:") }

// reportPanics reports every panic of a library goroutine as a violation. Outside the C08
// scenarios it is the only judgement made about a run in which the process would have crashed:
// whatever the scenario was exercising (a context buffer one byte too small, a reply of a
// particular size, ...) took the process down, so the property it checks did not hold there.
func reportPanics(w *World, run *simrt.Run, oracle, prefix string) {
	for _, pn := range run.Panics {
		top := topFrame(pn.Stack)
		val := pn.Value
		if strings.Contains(val, "index out of range") {
			val = "index out of range"
		}
		if strings.Contains(val, "slice bounds out of range") {
			val = "slice bounds out of range"
		}
		w.Violate(oracle, fmt.Sprintf("%s%s@%s", prefix, val, top), fmt.Sprintf("goroutine %s (%s) panicked: %s\n%s", pn.G, pn.Site, pn.Value, clipStack(pn.Stack)))
	}
}

func genC08C(r *simrt.Rand, tier string, idx uint64) *Plan {
	nt := 3 + r.Intn(3)
	p := genCBase(r, "c08c", nt)
	p.Params["sched"] = int(idx % 3)
	p.Params["tick_ms"] = []int{10, 100, 400}[r.Intn(3)]
	p.Params["dialtimeout_ms"] = []int{200, 2000}[r.Intn(2)]
	p.Params["warmup_ms"] = 300
	p.Lists = [][]int{allTargets(nt)}
	// backends die and come back at PRNG instants
	end := 0
	for i := range p.Targets {
		if r.Chance(2, 3) {
			t, up := 0, 1
			for k := 0; k < 1+r.Intn(4); k++ {
				t += 200 + r.Intn(1500)
				up = 1 - up
				p.Targets[i].Up = append(p.Targets[i].Up, [2]int{t, up})
			}
			if t > end {
				end = t
			}
		}
	}
	for c := 0; c < 1+r.Intn(4); c++ {
		cp := ClientPlan{}
		t := 0
		for t < end+1500 {
			cp.Ops = append(cp.Ops, Op{Kind: cForms[r.Intn(len(cForms))]})
			gap := 5 + r.Intn(120)
			cp.Ops = append(cp.Ops, Op{Kind: "sleep", N: gap * 1000})
			t += gap
		}
		p.Clients = append(p.Clients, cp)
	}
	if r.Chance(1, 4) {
		p.Lists = append(p.Lists, allTargets(nt)[:1+r.Intn(nt)])
		p.Clients = append(p.Clients, ClientPlan{Ops: []Op{{Kind: "sleep", N: 1000 * r.Intn(end+500)}, {Kind: "update", List: 1}}})
	}
	return p
}

func genC08T(r *simrt.Rand, tier string, idx uint64) *Plan {
	p := genC14(r, tier, idx*2+1) // concurrent callers, kill/restart
	p.Scenario = "c08t"
	return p
}

func init() {
	register(&Scenario{Property: "C08", Name: "c08c", Gen: genC08C, Main: (*World).RunClientWorld, Check: checkPanicsOnly, JudgesPanics: true})
	register(&Scenario{Property: "C08", Name: "c08t", Gen: genC08T, Main: (*World).RunTransportWorld, Check: checkPanicsOnly, JudgesPanics: true})
}
