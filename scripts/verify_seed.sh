#!/bin/bash
# verify_seed.sh <worktree> : confirm a seeded change (suite passes with it, demo fails with it, demo passes without it)
set -u
WT="$1"
cd "$WT" || exit 2
export GOFLAGS=-mod=mod GOPROXY=off GOSUMDB=off
DEMO=$(ls SEED/*_test.go | head -1)
DEMONAME=$(basename "$DEMO")
TESTS=$(grep -ho "^func Test[A-Za-z0-9_]*" "$DEMO" | sed 's/func //' | paste -sd'|')
echo "demo tests: $TESTS"
# clean state = HEAD + patch
git checkout -q -- . 2>/dev/null; rm -f "$DEMONAME"
git apply SEED/patch.diff || { echo "VERIFY: patch does not apply to the unchanged tree"; exit 1; }
go build ./... || { echo "VERIFY: does not build"; exit 1; }
echo "--- suite with change"
unshare -n sh -c "ip link set lo up; exec go test \"\$@\"" sh -vet=off -count=1 -timeout 20m . 2>&1 | tail -2
cp "$DEMO" "$DEMONAME"
echo "--- demo with change (expect FAIL)"
unshare -n sh -c "ip link set lo up; exec go test \"\$@\"" sh -vet=off -count=1 -timeout 10m -run "^($TESTS)\$" . 2>&1 | tail -4
git checkout -q -- .
echo "--- demo without change (expect ok)"
unshare -n sh -c "ip link set lo up; exec go test \"\$@\"" sh -vet=off -count=1 -timeout 10m -run "^($TESTS)\$" . 2>&1 | tail -2
rm -f "$DEMONAME"
