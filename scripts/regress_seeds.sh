#!/bin/bash
# regress_seeds.sh [budget_sec] [id-glob] : run every saved seeded change against the quick check of the
# property it breaks (apply to /repo, check, undo) and report caught / MISSED / n-a (patch no longer applies).
# Afterwards the evidence files and replays/ in this tree come from seeded runs: re-run the quick checks
# on the clean tree before committing evidence.
set -u
BUDGET="${1:-40}"; GLOB="${2:-*}"
D="$(cd "$(dirname "$0")/.." && pwd)"
out="$D/scratch/regress_seeds.txt"; mkdir -p "$D/scratch"; : > "$out"
for dir in "$D"/seeded/$GLOB/; do
  id=$(basename "$dir"); prop=$(jq -r .breaks_property "$dir/meta.json")
  patch="$dir/patch.diff"
  if ! git -C /repo apply --check "$patch" 2>/dev/null; then
    # written against an earlier commit: rebase it (3-way) when that is possible without conflicts
    if [ -z "$(git -C /repo status --porcelain --untracked-files=no)" ] && git -C /repo apply --3way "$patch" >/dev/null 2>&1 && ! git -C /repo diff --name-only --diff-filter=U | grep -q .; then
      git -C /repo diff HEAD > "$D/scratch/rebased.diff"; git -C /repo reset -q --hard HEAD; patch="$D/scratch/rebased.diff"
    else
      git -C /repo reset -q --hard HEAD
      echo "$id n-a (the lines it changes were rewritten by a later fix)" | tee -a "$out"; continue
    fi
  fi
  # smoke mode: one build, the property's scenarios for BUDGET seconds each, stop at the first violation
  if [ -n "$(git -C /repo status --porcelain --untracked-files=no)" ]; then echo "$id error (/repo not clean)" | tee -a "$out"; continue; fi
  git -C /repo apply "$patch" || { echo "$id error (apply)" | tee -a "$out"; continue; }
  res=$(cd "$D" && VERIF_BUDGET_SEC="$BUDGET" ./check smoke "$prop" 2>&1 | grep '^SMOKE-RESULT')
  git -C /repo checkout -- .
  case "$res" in
    *caught*) rc=1;; *clean*) rc=0;; *) rc=2;;
  esac
  first=$(echo "$res" | sed 's/.*signature=//')
  case "$rc" in
    1) echo "$id caught $first" | tee -a "$out";;
    0) echo "$id MISSED" | tee -a "$out";;
    *) echo "$id error rc=$rc" | tee -a "$out";;
  esac
done
git -C /repo status --porcelain --untracked-files=no | head -3
