#!/bin/bash
# instrument.sh <outdir>: copy /repo and the hslam modules it builds against into
# <outdir>/src, rewrite them with simgo, and write <outdir>/harness.mod.
set -euo pipefail
OUT="$1"
REPO="${VERIF_REPO:-/repo}"
VDIR="${VERIF_DIR:-/verif}"
export GOFLAGS=-mod=mod GOPROXY=off GOSUMDB=off GOTOOLCHAIN=local
GO=go1.26.8
export PATH="/opt/veriftools/go1.26.8/bin:$PATH"
MODCACHE="$(go env GOMODCACHE)"
mkdir -p "$OUT/src"
# module path -> version from /repo/go.mod and the dependency graph
declare -A VER
modver() { # module -> version as selected for /repo
  (cd "$REPO" && $GO list -m -f '{{.Version}}' "$1" 2>/dev/null)
}
MODS="scheduler buffer writer socket netpoll atomic funcs log inproc"
# copy rpc (no tests, examples, benchmarks, .git)
mkdir -p "$OUT/src/rpc"
for f in "$REPO"/*.go; do
  case "$f" in *_test.go) ;; *) cp "$f" "$OUT/src/rpc/";; esac
done
cp "$VDIR/harness/access/zz_verif_access.go.txt" "$OUT/src/rpc/zz_verif_access.go"
for m in $MODS; do
  v=$(modver github.com/hslam/$m)
  if [ -z "$v" ]; then echo "instrument: cannot resolve version of hslam/$m" >&2; exit 2; fi
  src="$MODCACHE/github.com/hslam/$m@$v"
  mkdir -p "$OUT/src/$m"
  for f in "$src"/*.go; do
    case "$f" in *_test.go) ;; *) cp "$f" "$OUT/src/$m/";; esac
  done
  chmod -R u+w "$OUT/src/$m"
  VER[$m]=$v
done
# go.mod for every scratch module: original requirements + replaces to the scratch copies
REPL=""
for m in $MODS; do REPL="$REPL
replace github.com/hslam/$m => $OUT/src/$m"; done
REPL="$REPL
replace github.com/hslam/rpc => $OUT/src/rpc
replace verif/sim => $VDIR/sim"
writemod() { # dir modpath origgomod
  local dir="$1" path="$2" orig="$3"
  {
    echo "module $path"
    echo
    echo "go 1.21"
    echo
    # keep original require lines
    awk '/^require \(/{inb=1;print;next} inb&&/^\)/{inb=0;print;next} inb{print;next} /^require /{print}' "$orig"
    echo "require verif/sim v0.0.0"
    echo "$REPL"
  } > "$dir/go.mod"
  if [ -f "$(dirname "$orig")/go.sum" ]; then cp "$(dirname "$orig")/go.sum" "$dir/go.sum"; fi
  chmod u+w "$dir/go.mod" "$dir/go.sum" 2>/dev/null || true
}
writemod "$OUT/src/rpc" github.com/hslam/rpc "$REPO/go.mod"
cat "$REPO/go.sum" > "$OUT/src/rpc/go.sum"
for m in $MODS; do
  writemod "$OUT/src/$m" github.com/hslam/$m "$MODCACHE/github.com/hslam/$m@${VER[$m]}/go.mod"
  cat "$REPO/go.sum" >> "$OUT/src/$m/go.sum" 2>/dev/null || cp "$REPO/go.sum" "$OUT/src/$m/go.sum"
done
# rewrite
DIRS="$OUT/src/rpc"
for m in $MODS; do DIRS="$DIRS $OUT/src/$m"; done
"$VDIR/bin/simgo" ${SIMGO_FLAGS:-} $DIRS
