#!/bin/bash
# try_seed.sh <patch.diff> <Cxx> [budget_sec] : apply a seeded change to /repo, run the quick check, undo it.
set -u
PATCH="$1"; PROP="$2"; BUDGET="${3:-40}"
cd /repo || exit 2
if [ -n "$(git status --porcelain --untracked-files=no)" ]; then echo "try_seed: /repo is not clean" >&2; exit 2; fi
git apply "$PATCH" || { echo "try_seed: patch does not apply" >&2; exit 2; }
cd /verif
VERIF_BUDGET_SEC="$BUDGET" ./check "$PROP" quick 2>&1 | grep -v "^check C\|^built\|^goroutine\|^verif\|^github\|^panic(\|^created\|^runtime\|^reflect\|^\s" | cut -c 1-400
rc=${PIPESTATUS[0]}
git -C /repo checkout -- .
echo "try_seed: check exit $rc"
exit $rc
