#!/usr/bin/env python3
# Regenerates /verif/MANIFEST.json from the table below.
import json
claimed = {
 "C01": ("exploration", "Seeded search over schedules, payload sizes, fragmentations and completion orders of the real client/server code under the simulator; oracle: every error-free completion carries F(own arguments) byte for byte (unique ids + payload digests), re-checked at end of run."),
}
pending = {}
na = {
 "C07": "pure function of its input (header field values and scratch buffers): no schedule, clock, fault or interleaving for a deterministic simulator to own; see DESIGN.md section 4",
}
allp = ["C%02d" % i for i in range(1, 21)]
checks = []
for p in allp:
    if p in claimed:
        lvl, text = claimed[p]
        checks.append({
            "property_id": p,
            "quick_cmd": "./check %s quick" % p,
            "thorough_cmd": "./check %s thorough" % p,
            "evidence_file": "/verif/evidence/%s.json" % p,
            "replay_cmd_template": "./check replay {path}",
            "engine": "simrt",
            "level_claimed": {"category": lvl, "text": text, "design_ref": "DESIGN.md section 3 (%s)" % p},
            "level_note": "Trusted base: the simgo source rewriter and the cooperative sync/atomic shims preserve the semantics of the rewritten code; simnet models a TCP-like byte stream; testing/synctest fake clock. Sampled search, not exhaustive.",
            "technique": "deterministic simulation with fault injection (seeded schedule/fault search, replayable)",
        })
not_app = []
for p in allp:
    if p in claimed:
        continue
    if p in na:
        not_app.append({"property_id": p, "reason": na[p]})
    else:
        not_app.append({"property_id": p, "reason": pending.get(p, "not claimed yet: the simulated check for this property is still under construction in this session")})
m = {
 "version": 1,
 "setup_cmd": "bash /verif/scripts/setup.sh",
 "hooks": {
   "guard": "verif",
   "enable": "no hooks in /repo: every check copies /repo's working tree (and the hslam modules it builds against) to a temporary directory, rewrites the copy with tools/simgo and builds the harness against it",
   "baseline_off_cmd": "cd /repo && go test -vet=off -count=1 -timeout 25m ./...",
   "source_commits": [],
   "add_only": True,
 },
 "engines": [{"name": "simrt", "path": "/verif/sim", "serves_properties": sorted(claimed), "kind_free_text": "deterministic simulator: token-passing scheduler in a testing/synctest bubble, cooperative sync/atomic shims, simulated network with fault injection, seeded choice stream with record/replay/shrink"}],
 "checks": checks,
 "not_applicable": not_app,
 "notes": "All checks rebuild from /repo's working tree into a mktemp scratch directory that is removed afterwards. Exit 2 means build or infrastructure trouble, never a violation.",
}
json.dump(m, open("/verif/MANIFEST.json", "w"), indent=1)
print("claimed", sorted(claimed), "not_applicable", [x["property_id"] for x in not_app])
