#!/usr/bin/env python3
# Regenerates /verif/MANIFEST.json from the table below.
import json
claimed = {
 "C01": ("exploration", "Seeded search over schedules, payload sizes, fragmentations and completion orders of the real client/server code under the simulator; oracle: every error-free completion carries F(own arguments) byte for byte (unique ids + payload digests), re-checked at end of run."),
 "C02": ("exploration", "Seeded search over interleavings of request write failure (EPIPE after a cut, closed codec), response arrival, peer FIN/RST at a byte offset, local Close and server kill, with the connection reader optionally starved; oracle: every private Done channel (capacity 4) received its call exactly once, Error unchanged between first signal and end of run, no blocking call left blocked; Go with a nil done channel included. Second scenario (c02t): the same oracle over calls through the real pooling Transport and a real load-balancing Client on top of it while servers are killed and restarted."),
 "C03": ("fault_enumeration", "Cut points are enumerated (conversation x direction x FIN/RST x byte offset; Close/kill at every op index) and crossed with sampled schedules; oracle: nobody hangs (every outstanding call, stream open and stream close is released before the harness tears the world down), calls after a reported loss fail at once with ErrShutdown, responses whose complete frame precedes the cut still succeed (wire tap), successful calls carry the right reply. Not exhaustive: schedules are sampled."),
 "C04": ("exploration", "Handler execution log and independent wire-tap decoder against the set of calls the clients made: executions per id <= 1 (==1 for successful calls and in fault-free runs), argument digest equal, no phantom executions, <=1 request and response frame per (connection, seq)."),
 "C05": ("exploration", "Server pipelining in all accept modes x direct/batched I/O x client pipelining: handler intervals per connection are disjoint and in wire order, response frames in request order, arrivals on a shared Done channel in issue order (failures included); in a fifth of the runs the client disconnects while requests are queued (execution order and overlap still judged)."),
 "C06": ("exploration", "Concurrent mixes of succeeding calls, handler errors (1 B..40 KB UTF-8), unknown methods, undecodable arguments, unencodable replies and unencodable requests; oracle: exactly the failing calls fail, text equals handler text and the text on the wire, text re-read at end of run (aliasing), reply object untouched, neighbours correct, no residue in NumCalls."),
 "C09": ("exploration", "1-3 streams per connection next to unary calls and pings, client-first / server-push-first / both; oracle: per stream and direction received id sequence == sent sequence (prefix after an injected cut), payload digests, no foreign stream ids; zero-length messages and caller-supplied read buffers included."),
 "C10": ("exploration", "Stream close / FIN / RST / Conn.Close / server kill at a PRNG instant x accept mode (non-poll, poll fallback, poll epoll-model); oracle: blocked readers on both ends released with ErrStreamShutdown, handler goroutine returned before the harness tears the world down (for a stream close: although the connection lives on), later Read/Write report ErrStreamShutdown, sibling streams and calls undisturbed; up to two readers per stream end, faults also timed to stream progress points."),
 "C11": ("exploration", "Handlers retain argument bytes, callers retain replies (incl. caller-supplied context buffers with a guard pattern) and stream messages, followed by >=4x further traffic in the same pool size classes with LIFO pool reuse; oracle: digests unchanged at end of run and right at hand-over, nothing written beyond the reply length, buffer used iff large enough."),
 "C08": ("fault_enumeration", "Adversarial peers that speak the wire format: every truncation, every single-byte corruption (8 values quick / all 255 thorough) and every upgrade byte of every corpus frame kind under each header encoder against a real server (each followed by a well-formed probe on the same connection, next to a well-formed client on another), an adversarial server against a real client, and bursts of 1..64 requests followed at once by a disconnect under schedule search; oracle: no goroutine of the library panics (the simulator records panic value and stack), probes and sibling traffic are served, the run reaches quiescence. Not exhaustive: schedules are sampled and multi-byte corruptions are only sampled."),
 "C12": ("exploration", "Each run executes one generated workload twice inside the simulator: under a reference configuration and under a PRNG-chosen combination of header encoder x body codec x options-by-name/constructor x server poll(fallback|epoll-model)/pipelining/direct I/O/context buffer/NoCopy x client pipelining/direct I/O/NoCopy x buffer sizes {1,64,4K,64K,1M}; oracle: per-call outcome transcripts and executed-id multisets are equal to each other and to the plan's prediction, per-stream delivery included. Real tcp/unix/http/ws/inproc sockets and TLS are outside the simulator and not covered (only that Options.TLSConfig reaches the socket constructor on both ends is observed)."),
 "C13": ("exploration", "Real Transport over simnet with limits from {<=0,1,2,3,8} x idle limits (some above the connection limit), 1-3 addresses, 1-6 concurrent callers of every call form, CloseIdleConnections, kill/restart, spacing relative to KeepAlive/IdleConnTimeout/tick; invariant checked at every dial, after every operation and by a 230 ms monitor: open connections per address <= effective MaxConnsPerHost, idle <= effective MaxIdleConnsPerHost, active+idle <= limit (read-only accessor added to the scratch copy), normalisation rule."),
 "C14": ("exploration", "Servers echo their identity and incarnation; kill/restart sequences per address with call spacings around KeepAlive/IdleConnTimeout/tick; oracle: reply identity == requested address, request frames only on connections dialed to that address (wire tap), calls during a whole down interval fail promptly with ErrDial/ErrShutdown, a sequential caller sees at most MaxConnsPerHost failures after the restart."),
 "C15": ("exploration", "A call lasting 3-43 simulated seconds and an open stream spanning many housekeeping ticks, next to short calls and CloseIdleConnections at PRNG instants, KeepAlive <,=,> IdleConnTimeout (also below the tick); safety: no call whose request was written and no open stream fails; liveness: all connections closed KeepAlive+IdleConnTimeout+3 ticks after the last traffic, and immediately after Transport.Close."),
 "C16": ("exploration", "Real Client over a scripted fake RoundTripper: concurrent callers of every call form x Update sequences (grow/shrink/replace/duplicates/empty strings) x health flaps x optional Director x all policies; the recorded history of Update and Route operations (event-sequence-stamped) is checked with porcupine against a current-target-set model."),
 "C17": ("exploration", "Real Client over a fake RoundTripper with scripted, time-varying per-target latency on the fake clock: RoundRobin windows of n consecutive calls hit n distinct targets; Random stays within the targets; LeastTime is compared call by call with a reference model of the documented EWMA (non-minimal picks only in probe slots >= Tick apart, probes in rotation, a refused target reset to the maximum at once, waiting inside the Client not counted as call duration)."),
 "C18": ("exploration", "Scripted up/down histories: failover within a 1 s detection bound and reuse after recovery, waiters released when a target becomes live, exact DialTimeout expiry with ErrTimeout, Close releasing waiters with ErrShutdown and failing later calls at once, Fallback pauses, all targets refusing then one returning, a timeout at the instant of a recovery followed by a second waiting episode, callers arriving at the instant of a release; nobody waits longer than DialTimeout + bound."),
 "C20": ("exploration", "Conn(s)/Transport/Client(real Transport) plus non-poll servers with calls in flight, blocked streams, never-answering handlers, dead peers and refused dials; every participant closed in PRNG order, some twice and overlapping; oracle (exact, from the simulator's goroutine registry and simnet's connection table): no library goroutine alive, every connection closed on both sides, Listen returned, repeated-Close results."),
 "C19": ("exploration", "CallWithContext with deadlines before / at / after the scripted handler latency, never-answering handlers, pre-cancelled contexts, context buffers around the reply size, next to sibling calls; exact fake-clock oracle: reply iff handler latency < deadline, context error exactly at the deadline otherwise, siblings (calls, pings, streams) unharmed. Second scenario (c19t): CallWithContext through the real Transport and a real Client while servers (possibly all) are away: return no later than the deadline."),
}
pending = {}
na = {
 "C07": "pure function of its input (header field values and scratch buffers): no schedule, clock, fault or interleaving for a deterministic simulator to own; see DESIGN.md section 4",
}
allp = ["C%02d" % i for i in range(1, 21)]
checks = []
for p in allp:
    if p in claimed:
        lvl, text = claimed[p]
        checks.append({
            "property_id": p,
            "quick_cmd": "./check %s quick" % p,
            "thorough_cmd": "./check %s thorough" % p,
            "evidence_file": "/verif/evidence/%s.json" % p,
            "replay_cmd_template": "./check replay {path}",
            "engine": "simrt",
            "level_claimed": {"category": lvl, "text": text, "design_ref": "DESIGN.md section 3 (%s)" % p},
            "level_note": "Trusted base: the simgo source rewriter and the cooperative sync/atomic shims preserve the semantics of the rewritten code; simnet models a TCP-like byte stream; testing/synctest fake clock. Sampled search, not exhaustive.",
            "technique": "deterministic simulation with fault injection (seeded schedule/fault search, replayable)",
        })
not_app = []
for p in allp:
    if p in claimed:
        continue
    if p in na:
        not_app.append({"property_id": p, "reason": na[p]})
    else:
        not_app.append({"property_id": p, "reason": pending.get(p, "not claimed yet: the simulated check for this property is still under construction in this session")})
m = {
 "version": 1,
 "setup_cmd": "bash /verif/scripts/setup.sh",
 "hooks": {
   "guard": "verif",
   "enable": "no hooks in /repo: every check copies /repo's working tree (and the hslam modules it builds against) to a temporary directory, rewrites the copy with tools/simgo and builds the harness against it",
   "baseline_off_cmd": "cd /repo && go test -vet=off -count=1 -timeout 25m ./...",
   "source_commits": [],
   "add_only": True,
 },
 "engines": [{"name": "simrt", "path": "/verif/sim", "serves_properties": sorted(claimed), "kind_free_text": "deterministic simulator: token-passing scheduler in a testing/synctest bubble, cooperative sync/atomic shims, simulated network with fault injection, seeded choice stream with record/replay/shrink"}],
 "checks": checks,
 "not_applicable": not_app,
 "notes": "All checks rebuild from /repo's working tree into a mktemp scratch directory that is removed afterwards. Exit 2 means build or infrastructure trouble, never a violation. Known findings (genuine defects recorded, not repaired) and repaired defects are listed in /verif/known_findings.json (lists 'known' and 'fixed'); a listed known finding is printed as 'KNOWN-FINDING: property=<id> ...' and does not make a check fail; the file is never written at run time. At present one entry: C05, a call that fails on the client because its request cannot be encoded is signalled out of issue order under client pipelining (DESIGN.md section 5).",
}
json.dump(m, open("/verif/MANIFEST.json", "w"), indent=1)
print("claimed", sorted(claimed), "not_applicable", [x["property_id"] for x in not_app])
