#!/bin/bash
# Build the framework tools from files on disk only (offline).
set -euo pipefail
export GOFLAGS=-mod=mod GOPROXY=off GOSUMDB=off GOTOOLCHAIN=local CGO_ENABLED=0
export PATH="/opt/veriftools/go1.26.8/bin:$PATH"
cd /verif/tools
mkdir -p /verif/bin
go build -o /verif/bin/simgo ./simgo
go build -o /verif/bin/check ./check
cd /verif/sim && go vet ./... >/dev/null
echo "setup ok"
