#!/bin/bash
# Build the framework tools from files on disk only (offline).
set -euo pipefail
export GOFLAGS=-mod=mod GOPROXY=off GOSUMDB=off GOTOOLCHAIN=local CGO_ENABLED=0
export PATH="/opt/veriftools/go1.26.8/bin:$PATH"
VDIR="$(cd "$(dirname "$0")/.." && pwd)"
cd "$VDIR/tools"
mkdir -p "$VDIR/bin"
go build -o "$VDIR/bin/simgo" ./simgo
go build -o "$VDIR/bin/check" ./check
cd "$VDIR/sim" && go vet ./... >/dev/null
echo "setup ok"
