#!/usr/bin/env python3
"""Mutation analysis of the checks (validation of the machinery, not a registered check).

phase1: every single-site mutant (tools/mutgen) of the listed /repo files is built and run against
        the repository's own test suite, each in a scratch copy under /tmp/mut and in its own network
        namespace (the suite binds fixed ports); survivors (build + suite pass) are kept as patches.
phase2: survivors are applied to /repo one at a time (the tree must be clean; it is restored after
        each), and `./check smoke <properties of the file>` says whether any check notices them.

usage: mutation_sweep.py phase1 [file ...]
       mutation_sweep.py phase2 [max_survivors] [budget_sec]
Results: /verif/scratch/mut/phase1.tsv, /verif/scratch/mut/patches/*.diff, /verif/scratch/mut/phase2.tsv
"""
import os, subprocess, sys, shutil, random, concurrent.futures as cf

VERIF = os.path.dirname(os.path.dirname(os.path.abspath(__file__)))
OUT = os.path.join(VERIF, "scratch", "mut")
FILES = ["conn.go", "transport.go", "client.go", "server.go", "stream.go", "codec_client.go", "codec_server.go", "codec.go", "dialer.go"]
PROPS = {
    "conn.go": "C02,C03,C01,C06,C19,C09,C10,C11,C05,C20,C08,C14",
    "transport.go": "C13,C14,C15,C20,C04,C02,C19",
    "client.go": "C16,C17,C18,C20,C08,C19,C04",
    "server.go": "C04,C05,C09,C10,C08,C06,C11,C12,C20,C01",
    "stream.go": "C09,C10,C11",
    "codec_client.go": "C01,C06,C08,C12,C11,C04",
    "codec_server.go": "C01,C06,C08,C12,C11,C04",
    "codec.go": "C01,C06,C08,C12,C11,C19",
    "dialer.go": "C12,C20,C03",
}
ENV = dict(os.environ, GOFLAGS="-mod=mod", GOPROXY="off", GOSUMDB="off")
MUTGEN = os.path.join(VERIF, "bin", "mutgen")


def points(f):
    out = subprocess.run([MUTGEN, "-file", "/repo/" + f, "-list"], capture_output=True, text=True).stdout
    return [l.split("\t") for l in out.splitlines()]


def worker_dir(k):
    d = f"/tmp/mut/w{k}"
    if not os.path.exists(d):
        os.makedirs("/tmp/mut", exist_ok=True)
        subprocess.run(["rsync", "-a", "--exclude", ".git", "/repo/", d + "/"], check=True)
    return d


def one(task):
    k, f, idx, kind, line, fn, summ = task
    d = worker_dir(k)
    target = os.path.join(d, f)
    shutil.copy("/repo/" + f, target)
    mutated = f"/tmp/mut/m{k}.go"
    r = subprocess.run([MUTGEN, "-file", "/repo/" + f, "-apply", idx, "-out", mutated], capture_output=True, text=True)
    if r.returncode != 0:
        return (f, idx, kind, line, fn, "mutgen-error", summ)
    shutil.copy(mutated, target)
    try:
        b = subprocess.run(["go", "build", "./..."], cwd=d, env=ENV, capture_output=True, text=True, timeout=300)
        if b.returncode != 0:
            return (f, idx, kind, line, fn, "nocompile", summ)
        try:
            t = subprocess.run(["unshare", "-n", "sh", "-c", "ip link set lo up; exec go test -vet=off -count=1 -timeout 70s ."], cwd=d, env=ENV, capture_output=True, text=True, timeout=200)
            verdict = "survived" if t.returncode == 0 else "killed"
        except subprocess.TimeoutExpired:
            verdict = "killed-timeout"
        if verdict == "survived":
            diff = subprocess.run(["diff", "-u", "--label", "a/" + f, "--label", "b/" + f, "/repo/" + f, mutated], capture_output=True, text=True).stdout
            os.makedirs(os.path.join(OUT, "patches"), exist_ok=True)
            open(os.path.join(OUT, "patches", f"{f}-{idx}.diff"), "w").write(diff)
        return (f, idx, kind, line, fn, verdict, summ)
    finally:
        shutil.copy("/repo/" + f, target)


def phase1(files):
    os.makedirs(OUT, exist_ok=True)
    nworkers = 14
    tasks = []
    for f in files:
        for p in points(f):
            tasks.append([f] + p)
    random.Random(1).shuffle(tasks)
    done = 0
    with open(os.path.join(OUT, "phase1.tsv"), "a") as log:
        # one long-lived queue per worker directory
        def run_slice(k):
            res = []
            for i in range(k, len(tasks), nworkers):
                f, idx, kind, line, fn, summ = tasks[i]
                res.append(one((k, f, idx, kind, line, fn, summ)))
                log.write("\t".join(res[-1]) + "\n")
                log.flush()
            return res
        with cf.ThreadPoolExecutor(nworkers) as ex:
            for res in ex.map(run_slice, range(nworkers)):
                done += len(res)
    print("phase1 done:", done, "mutants")


def phase2(limit, budget):
    pdir = os.path.join(OUT, "patches")
    names = sorted(n for n in os.listdir(pdir) if n.startswith(os.environ.get("MUT_FILTER", "")))
    random.Random(2).shuffle(names)
    donefile = os.path.join(OUT, "phase2.tsv")
    done = set()
    if os.path.exists(donefile):
        done = {l.split("\t")[0] for l in open(donefile)}
    n = 0
    for name in names:
        if name in done:
            continue
        if n >= limit or os.path.exists(os.path.join(OUT, "STOP")):
            break
        n += 1
        f = name.rsplit("-", 1)[0]
        if subprocess.run(["git", "-C", "/repo", "status", "--porcelain", "--untracked-files=no"], capture_output=True, text=True).stdout.strip():
            sys.exit("phase2: /repo is not clean")
        if subprocess.run(["git", "-C", "/repo", "apply", os.path.join(pdir, name)]).returncode != 0:
            open(donefile, "a").write(f"{name}\tpatch-does-not-apply\n")
            continue
        try:
            r = subprocess.run([os.path.join(VERIF, "check"), "smoke", PROPS[f]], cwd=VERIF, env=dict(os.environ, VERIF_BUDGET_SEC=str(budget)), capture_output=True, text=True, timeout=3600)
            res = [l for l in r.stdout.splitlines() if l.startswith("SMOKE-RESULT")]
            verdict = res[-1] if res else f"no-result rc={r.returncode} {r.stderr[-300:]!r}"
        finally:
            subprocess.run(["git", "-C", "/repo", "checkout", "--", "."])
        open(donefile, "a").write(f"{name}\t{verdict}\n")
        print(name, verdict, flush=True)


if __name__ == "__main__":
    if sys.argv[1] == "phase1":
        phase1(sys.argv[2:] or FILES)
    else:
        phase2(int(sys.argv[2]) if len(sys.argv) > 2 else 100, int(sys.argv[3]) if len(sys.argv) > 3 else 6)
